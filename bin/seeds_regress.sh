#!/bin/bash
# seeds_regress.sh [seed-id...] : re-run every seeded change (default: all of /verif/seeded/*/meta.json) against the checks that
# are recorded to detect it; writes /verif/seeded/REGRESSION.txt. /repo is restored after every seed. Do not run while anything
# else builds from /repo.
cd /verif
OUT=/verif/seeded/REGRESSION.txt
IDS="$@"
[ -z "$IDS" ] && IDS=$(ls seeded | while read d; do [ -f seeded/$d/meta.json ] && echo $d; done)
[ $# -eq 0 ] && echo "# seed | check | exit code | VIOLATION lines | first key   ($(date -u +%FT%TZ), /repo $(git -C /repo log --format=%h -1))" > $OUT
for s in $IDS; do
  checks=$(python3 -c "import json,sys; m=json.load(open('/verif/seeded/$s/meta.json')); print(' '.join(k.split(' ')[0] for k in m.get('detected_by',{})) or m['breaks'])")
  ( cd /repo && git apply /verif/seeded/$s/patch.diff ) || { echo "$s | - | patch does not apply" >> $OUT; continue; }
  for c in $checks; do
    out=$(bin/check $c quick 2>&1); rc=$?
    n=$(echo "$out" | grep -c '^VIOLATION')
    key=$(echo "$out" | grep '^VIOLATION' | head -1 | sed 's/.* key=\([^ ]*\).*/\1/' | cut -c1-90)
    echo "$s | $c | rc=$rc | $n | $key" >> $OUT
  done
  git -C /repo checkout -- .
done
git -C /repo status --short | grep -v _build
tail -n +1 $OUT | tail -60
