#!/bin/bash
# try_seed.sh <patch.diff> <check ids...> : apply a seeded change to /repo, run the quick checks, undo it straight afterwards
P=$1; shift
cd /repo && git apply "$P" || { echo "patch does not apply"; exit 2; }
trap 'git -C /repo checkout -- . ' EXIT
for id in "$@"; do
  out=$(cd /verif && bin/check $id quick 2>&1); rc=$?
  echo "== $id rc=$rc $(echo "$out" | grep -c '^VIOLATION') violation line(s)"
  echo "$out" | grep '^VIOLATION' | cut -c1-220 | head -4
  echo "$out" | tail -1 | cut -c1-200
done
