#!/bin/bash
# lab_try.sh <patch.diff> <check ids...> : run quick (TIER=thorough for the other tier) checks against a change WITHOUT touching /repo or
# /verif: the change is applied in a scratch worktree ($LAB/repo, created from /repo HEAD on first use), the checks run from a copy of
# /verif ($LAB/verif) with its own .build, evidence and replay directories. LAB defaults to /tmp/vlab; remove it when done
# (git -C /repo worktree remove --force $LAB/repo; rm -rf $LAB).
LAB=${LAB:-/tmp/vlab}
P=$(readlink -f "$1"); shift
mkdir -p $LAB
[ -d $LAB/repo ] || git -C /repo worktree add --detach $LAB/repo HEAD > /dev/null || exit 2
rsync -a --delete --exclude .build --exclude .git --exclude replay --exclude evidence "$(cd "$(dirname "$0")/.." && pwd)/" $LAB/verif/
mkdir -p $LAB/verif/evidence
cd $LAB/repo && git checkout -q -- . && git apply "$P" || { echo "patch does not apply"; exit 2; }
trap 'git -C $LAB/repo checkout -q -- .' EXIT
for id in "$@"; do
  out=$(cd $LAB/verif && VERIF_REPO=$LAB/repo bin/check $id ${TIER:-quick} 2>&1); rc=$?
  echo "== $id rc=$rc $(echo "$out" | grep -c '^VIOLATION') violation line(s)"
  echo "$out" | grep '^VIOLATION' | cut -c1-250 | head -4
  echo "$out" | tail -1 | cut -c1-200
done
