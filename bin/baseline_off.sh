#!/bin/bash
# Runs the repository's stable baseline with the hook guard OFF: normal build in /repo/_build (no -DUSCXML_VERIF),
# full ctest as in /root/.vp/BASELINE.json, then checks that every test of BASELINE.stable_pass passed.
set -e
REPO=${VERIF_REPO:-/repo}
B=$REPO/_build
if [ ! -f $B/build.ninja ]; then cmake -G Ninja -S $REPO -B $B -DCMAKE_BUILD_TYPE=RelWithDebInfo -DCMAKE_CXX_FLAGS=-Wno-error > /dev/null; fi
if grep -q USCXML_VERIF $B/CMakeCache.txt; then echo "guard is ON in $B" >&2; exit 2; fi
cmake --build $B -j16 > $B/verif-build.log 2>&1 || { tail -30 $B/verif-build.log; exit 2; }
J=$B/verif-junit.xml; rm -f $J
ctest --test-dir $B -j8 --timeout 900 --output-junit $J > $B/verif-ctest.log 2>&1 || true
python3 - "$J" <<'PY'
import sys, json, xml.etree.ElementTree as ET
base = json.load(open('/root/.vp/BASELINE.json'))
want = set(x.split('::')[0] for x in base['stable_pass'])
res = {}
for tc in ET.parse(sys.argv[1]).getroot().iter('testcase'):
    ok = tc.get('status') == 'run' and tc.find('failure') is None and tc.find('error') is None
    res[tc.get('name')] = ok
missing = sorted(t for t in want if not res.get(t))
print('baseline stable_pass: %d wanted, %d passed, %d not passed' % (len(want), len(want) - len(missing), len(missing)))
for t in missing[:40]: print('  NOT PASSED:', t)
sys.exit(1 if missing else 0)
PY
