#!/usr/bin/env python3
"""Regenerates the two tables of DESIGN.md section 6 that are derived from files: repaired defects (known_findings.txt 'fixed:' lines)
and seeded changes (seeded/*/meta.json). Everything else in DESIGN.md is written by hand."""
import json, glob, os, re
V = os.path.dirname(os.path.dirname(os.path.abspath(__file__)))
fixed = sorted(l[len('fixed: property='):].strip() for l in open(os.path.join(V, 'known_findings.txt')) if l.startswith('fixed:'))
fix = ['| property | commit | what failed |', '|---|---|---|'] + ['| %s | %s | %s |' % (f.split(' ', 2)[0], f.split(' ', 2)[1], f.split(' ', 2)[2].replace('|', '/')[:260]) for f in fixed]
rows = ['| seed | breaks | change | detected by (quick) | after |', '|---|---|---|---|---|']
for d in sorted(glob.glob(os.path.join(V, 'seeded/*/meta.json')), key=lambda p: (re.sub(r'-\d+$', '', os.path.basename(os.path.dirname(p))), p)):
    m = json.load(open(d)); sid = os.path.basename(os.path.dirname(d))
    det = ', '.join(k.replace(' quick', '') for k in m.get('detected_by', {})) or 'none (equivalent on the repaired tree)'
    rows.append('| %s | %s | %s | %s | %s |' % (sid, m['breaks'], m['summary'].replace('|', '/')[:150], det, 'yes' if m.get('missed_by_before') else ''))
s = open(os.path.join(V, 'DESIGN.md')).read()
for name, tab in (('FIXTABLE', fix), ('SEEDTABLE', rows)):
    b, e = '<!-- %s:BEGIN -->' % name, '<!-- %s:END -->' % name
    assert b in s and e in s, name
    s = s[:s.index(b) + len(b)] + '\n' + '\n'.join(tab) + '\n' + s[s.index(e):]
open(os.path.join(V, 'DESIGN.md'), 'w').write(s)
print('fixes: %d, seeds: %d' % (len(fixed), len(rows) - 2))
