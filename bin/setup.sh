#!/bin/bash
# Builds the three flavours of uSCXML (asan+ubsan, tsan, plain) from /repo's working tree and the harness programs.
cd "$(dirname "$0")/.."
pids=()
for fl in asan tsan plain; do
  bin/vbuild $fl & pids+=($!)
done
rc=0
for p in "${pids[@]}"; do wait $p || rc=2; done
[ $rc -eq 0 ] || { echo "setup: a flavour failed to build"; exit 2; }
export PYTHONPATH="$(pwd)"
python3 -c "
import sys, os
sys.path.insert(0, os.getcwd())
from vf import harnesses
harnesses.build_all()
" || exit 2
echo setup ok
