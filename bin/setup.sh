#!/bin/bash
# Builds the three flavours of uSCXML (asan+ubsan, tsan, plain) from /repo's working tree and the harness programs.
cd "$(dirname "$0")/.."
set -e
for fl in asan tsan plain; do
  bin/vbuild $fl &
done
wait
export PYTHONPATH=/verif
python3 - <<'PY'
import sys
sys.path.insert(0, '/verif')
from vf import harnesses
harnesses.build_all()
PY
echo setup ok
