"""Running vdrv in batches and parsing its line records into step-structured traces."""
import os, re, subprocess
from vf import common

XP = re.compile(r'//(\w+)\[@id="([^"]+)"\]/transition\[(\d+)\]$')
XPROOT = re.compile(r'^/(?:\w+:)?scxml(?:\[\d+\])?/transition\[(\d+)\]$')


def job_text(jid, engine, xml, events=(), maxsteps=400, flags=(), ops=None, snap=None):
    xb = xml.encode('utf-8')
    L = ['JOB %s %s %d %d %s\n' % (jid, engine, maxsteps, len(xb), ' '.join(flags))]
    body = [xb, b'\n']
    tail = []
    if ops is not None:
        for o in ops: tail.append('OP %s\n' % o)
    else:
        for e in events: tail.append('EV %s\n' % e)
        if snap is not None: tail.append('SNAP %d\n' % snap)
    tail.append('END\n')
    return L[0].encode() + b''.join(body) + ''.join(tail).encode()


def run_jobs(binary, jobs, timeout_per_job=20, env=None):
    """jobs: list of (jid, bytes). Returns {jid: {'lines': [...], 'crash': None|str, 'timeout': bool}}.
    A crash/timeout kills the batch; the job that was running is blamed, the rest is re-run in a new process."""
    res = {}
    pending = list(jobs)
    while pending:
        inp = b''.join(j[1] for j in pending)
        rc, out, err, to = common.run_proc([binary], inp=inp, timeout=max(30, timeout_per_job * len(pending) // 4 + 30), env=env, text=False)
        out = (out or b'').decode('utf-8', 'replace'); err = (err or b'').decode('utf-8', 'replace')
        cur = None; lines = None; done = set()
        for ln in out.split('\n'):
            if ln.startswith('JOB '):
                cur = ln[4:].strip(); lines = []
            elif ln.startswith('DONE ') and cur is not None:
                res[cur] = {'lines': lines, 'crash': None, 'timeout': False}; done.add(cur); cur = None
            elif cur is not None:
                lines.append(ln)
        ids = [j[0] for j in pending]
        if cur is not None and cur not in done:
            # the job that did not finish
            res[cur] = {'lines': lines or [], 'crash': None if to else (common.sanitizer_summary(err) or ('rc=%s %s' % (rc, err[-800:]))), 'timeout': bool(to), 'stderr': err[-4000:]}
            done.add(cur)
        elif (rc != 0 or to) and len(done) < len(ids):
            # died between jobs (e.g. in a destructor): blame the next unfinished one
            nxt = [i for i in ids if i not in done][0]
            res[nxt] = {'lines': [], 'crash': None if to else (common.sanitizer_summary(err) or ('rc=%s %s' % (rc, err[-800:]))), 'timeout': bool(to), 'stderr': err[-4000:]}
            done.add(nxt)
        elif rc != 0 and len(done) == len(ids):
            # crashed at exit after all jobs were done: blame the last
            last = ids[-1]
            res[last]['crash'] = common.sanitizer_summary(err) or ('rc=%s at exit %s' % (rc, err[-800:]))
            res[last]['stderr'] = err[-4000:]
        newp = [j for j in pending if j[0] not in done]
        if len(newp) == len(pending):
            for j in pending:
                res[j[0]] = {'lines': [], 'crash': 'driver produced no output rc=%s %s' % (rc, err[-500:]), 'timeout': bool(to)}
            break
        pending = newp
    return res


def _sid(x):
    return 'root' if x.startswith('#') else x


def parse(lines, prefix=''):
    """Line records -> dict(steps=[...], results=[...], final=..., vals=..., thrown=..., raw callbacks for C13)."""
    steps = []; cur = None; pending_ev = None
    final = None; vals = {}; thrown = None; results = []; completion = None
    issues = []; stepcap = False
    for ln in lines:
        if prefix:
            if not ln.startswith(prefix): continue
            ln = ln[len(prefix):]
        elif ln.startswith('B '):
            continue
        if not ln: continue
        p = ln.split(' ', 1); k = p[0]; arg = p[1] if len(p) > 1 else ''
        if k == 'E':
            if pending_ev is not None: steps.append({'ev': pending_ev[0], 'q': pending_ev[1], 'acts': [], 'noop': True})
            nm_, _, q = arg.rpartition(' ')
            pending_ev = (nm_, q)
        elif k == 'MB':
            if pending_ev is None:
                cur = {'ev': '#init' if not steps else None, 'q': 's', 'acts': [], 'before': sorted(_sid(x) for x in arg.split())}
            else:
                cur = {'ev': pending_ev[0], 'q': pending_ev[1], 'acts': [], 'before': sorted(_sid(x) for x in arg.split())}
            pending_ev = None
        elif k == 'MA':
            if cur is not None:
                cur['conf'] = sorted(_sid(x) for x in arg.split()); steps.append(cur); cur = None
        elif k == 'XB':
            (cur if cur is not None else {'acts': []})['acts'].append(('exit', _sid(arg)))
        elif k == 'NB':
            (cur if cur is not None else {'acts': []})['acts'].append(('enter', _sid(arg)))
        elif k == 'TB':
            m = XP.search(arg)
            if m and m.group(1) in ('state', 'parallel') and cur is not None:
                cur['acts'].append(('trans', m.group(2), int(m.group(3)) - 1))
            elif cur is not None and XPROOT.match(arg):
                cur['acts'].append(('trans', 'root', int(XPROOT.match(arg).group(1)) - 1))
        elif k == 'L':
            lab, sep, val = arg.partition(': ')
            rec = ('log', lab if sep else arg.strip(), val if sep else None)
            if completion is not None: completion['acts'].append(rec)
            elif cur is not None: cur['acts'].append(rec)
            else: steps.append({'ev': '#outside', 'acts': [rec]})
        elif k == 'S':
            if pending_ev is not None:
                steps.append({'ev': pending_ev[0], 'q': pending_ev[1], 'acts': [], 'noop': True}); pending_ev = None
        elif k == 'R':
            results.append(int(arg))
            if pending_ev is not None and cur is None:
                # a step() returned after dequeuing an event that enabled nothing
                steps.append({'ev': pending_ev[0], 'q': pending_ev[1], 'acts': [], 'noop': True}); pending_ev = None
        elif k == 'KB':
            completion = {'ev': '#completion', 'acts': [], 'before': sorted(_sid(x) for x in arg.split())}
        elif k == 'KA':
            if completion is not None: steps.append(completion); completion = None
        elif k == 'END': final = sorted(_sid(x) for x in arg.split())
        elif k == 'V':
            n, _, v = arg.partition(' '); vals[n] = v
        elif k in ('THROW', 'THROWSTD', 'THROWX'): thrown = arg or k
        elif k == 'ISSUE': issues.append(arg)
        elif k == 'STEPCAP': stepcap = True
    if pending_ev is not None: steps.append({'ev': pending_ev[0], 'q': pending_ev[1], 'acts': [], 'noop': True})
    return {'steps': steps, 'results': results, 'final': final, 'vals': vals, 'thrown': thrown, 'issues': issues, 'stepcap': stepcap}


def norm_val(v):
    if v is None: return None
    if isinstance(v, bool): return 'true' if v else 'false'
    return str(v)


def ref_steps(ref):
    out = []
    for s in ref.steps:
        acts = []
        for a in s['acts']:
            if a[0] == 'log': acts.append(('log', a[1], norm_val(a[2])))
            else: acts.append(tuple(a))
        d = dict(s); d['acts'] = acts
        out.append(d)
    return out
