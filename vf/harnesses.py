"""Builds every harness program against its flavour (called by bin/setup.sh; checks rebuild lazily as well)."""
import os
from vf import common

ALL = [
    ('vmatch', 'asan', dict(extra_flags=['-I' + common.REPO + '/test/src'])),
    ('vdrv', 'asan', {}),
    ('vxform', 'asan', dict(transform=True)),
    ('vjson', 'asan', {}),
    ('vlua', 'asan', {}),
    ('vpml', 'asan', {}),
    ('vthr', 'asan', {}),
    ('vthr', 'tsan', {}),
    ('vthr', 'plain', {}),
    ('vdrv', 'plain', {}),
    ('vxform', 'plain', dict(transform=True)),
]


def build_all():
    for name, fl, kw in ALL:
        if os.path.exists(os.path.join(common.VERIF, 'harness', name + '.cpp')):
            print('harness', name, fl, common.harness(name, fl, **kw))
