import sys, collections, json
sys.path.insert(0,'/verif')
from vf import common, chart as C, c01lib, trace as T
def work(args):
    lo, hi, dm, engine, binary = args
    cases=[]; meta={}
    for seed in range(lo,hi):
        ch,hist=c01lib.make_case(seed,dm)
        ref=c01lib.ref_run(ch,hist)
        if ref.diverged: meta[str(seed)]=(ch,hist,ref); continue
        cases.append({'id':str(seed),'xml':C.render(ch,dm),'engine':engine,'hist':hist}); meta[str(seed)]=(ch,hist,ref)
    res=c01lib.run_batch(binary,cases)
    out=[]
    for sid,(ch,hist,ref) in meta.items():
        if ref.diverged: out.append((sid,'diverged',None,None)); continue
        v,k,d=c01lib.compare_case(ch,hist,dm,engine,res[sid],ref)
        out.append((sid,v,k,d))
    return out
if __name__=='__main__':
    n=int(sys.argv[1]); dm=sys.argv[2]; engine=sys.argv[3]; base=int(sys.argv[4]) if len(sys.argv)>4 else 0
    common.build('asan'); binary=common.harness('vdrv','asan')
    chunks=[(base+i,min(base+i+50,base+n),dm,engine,binary) for i in range(0,n,50)]
    cnt=collections.Counter(); shown=collections.Counter()
    for out in common.pmap(work,chunks):
        for sid,v,k,d in out:
            cnt[(v,k)]+=1
            if v not in('ok','diverged') and shown[k]<int(sys.argv[5]) if len(sys.argv)>5 else 0:
                shown[k]+=1
                print('---',sid,v,k)
                if d and 'ref' in d and d['ref'] and d['impl'] and isinstance(d['ref'],dict):
                    print('  REF ', d['ref'].get('ev'), d['ref'].get('before'), d['ref']['acts'], d['ref'].get('conf'), 'enabled', d['ref'].get('enabled'))
                    print('  IMPL', d['impl'].get('ev'), d['impl'].get('before'), d['impl']['acts'], d['impl'].get('conf'))
                else: print('  ',json.dumps(d,default=str)[:1500])
    for k,v in sorted(cnt.items(), key=lambda x:-x[1]): print(v,k)
