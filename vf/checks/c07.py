"""C07 - Errors become error events, never crashes.

Fault-injection monitor: one failing element (or failing condition) is injected at every position of every executable block of
generated documents; the run (ASan/UBSan build) is compared step by step with the reference model, in which a failing
element enqueues its error event and aborts only the rest of its block. That decides: the error event is processed in queue
order, nothing after the failing element in the block ran, the following blocks ran, the interpreter kept stepping. A second
workload runs seeded mutations of well-formed documents through fromXML + validate + stepping; there only process survival
(signals, sanitizer reports, hangs) is judged.
"""
import os, sys, json, random, copy, collections, re, zlib
from vf import common, chart as C, trace as T, c01lib, refscxml, compare
from vf.common import Check

FAULTS = {
    'lua': [('send-unsupported-type', '<send event="never" type="unsupported-io-processor"/>', 'error.execution'),
            ('send-illegal-target', '<send event="never" target="!bad"/>', 'error.execution'),
            ('assign-illegal-expr', '<assign location="x" expr="1 +* 2"/>', 'error.execution'),
            ('assign-system-variable', '<assign location="_event" expr="1"/>', 'error.execution'),
            ('assign-system-variable', '<assign location="_sessionid" expr="1"/>', 'error.execution'),
            ('foreach-non-array', '<foreach array="x" item="it"><log label="FE"/></foreach>', 'error.execution'),
            ('cancel-without-id', '<cancel/>', 'error.execution'),
            ('log-illegal-expr', '<log label="LL" expr="nofn()"/>', 'error.execution'),
            ('assign-empty-location', '<assign location="" expr="1"/>', 'error.execution'),
            ('assign-illegal-location', '<assign location="x.y.z" expr="1"/>', 'error.execution')],
    'promela': [('send-unsupported-type', '<send event="never" type="unsupported-io-processor"/>', 'error.execution'),
                ('assign-illegal-expr', '<assign location="x" expr="1 +"/>', 'error.execution'),
                ('assign-undeclared', '<assign location="nodecl" expr="1"/>', 'error.execution'),
                ('assign-system-variable', '<assign location="_event" expr="1"/>', 'error.execution'),
                ('cancel-without-id', '<cancel/>', 'error.execution'),
                ('log-undeclared', '<log label="LL" expr="nodecl + 1"/>', 'error.execution'),
                ('foreach-non-array', '<foreach array="x" item="it"><log label="FE"/></foreach>', 'error.execution'),
                ('division-by-zero', '<assign location="x" expr="7 / 0"/>', 'error.execution'),
                ('modulo-by-zero', '<assign location="x" expr="7 % 0"/>', 'error.execution'),
                ('unary-minus', '<assign location="x" expr="-y"/>', None)],        # legal: must simply work (x = -y)
    'null': [('send-unsupported-type', '<send event="never" type="unsupported-io-processor"/>', 'error.execution'),
             ('send-illegal-target', '<send event="never" target="!bad"/>', 'error.execution'),
             ('cancel-without-id', '<cancel/>', 'error.execution')],
}
CONDFAULT = {'lua': '1 +* 2', 'promela': '1 +'}


def blocks_of(ch):
    out = []
    for s in ch.doc:
        if s.kind == 'history':
            out += [('history-transition', s.id, t.content) for t in s.trans]; continue
        out += [('onentry', s.id, b) for b in s.onentry] + [('onexit', s.id, b) for b in s.onexit]
        out += [('transition', s.id, t.content) for t in s.trans]
        if s.initial_elem: out.append(('initial-transition', s.id, s.initial_elem[1]))
    return out


def variants(seed, dm):
    """yield (tag, chart, hist, fault kind) with one injected fault each"""
    base, hist = c01lib.make_case(seed, dm)
    rng = random.Random(seed * 7 + 1)
    nb = len(blocks_of(base))
    for bi in range(nb):
        blk = blocks_of(base)[bi]
        for pos in range(len(blk[2]) + 1):
            ch = copy.deepcopy(base)
            b = blocks_of(ch)[bi]
            kind, xml, err = rng.choice(FAULTS[dm])
            if err is None:
                act = ('xmlassignneg',)   # legal unary minus: handled below
                if 'y' not in ch.data: continue
                b[2].insert(pos, ('xml', xml)); b[2].insert(pos + 1, ('refassignneg', 'x', 'y'))
            else:
                f = ('fail', err, xml)
                if rng.random() < 0.3 and dm != 'null':
                    f = ('if', [(('true',), [f])], None)
                b[2].insert(pos, f)
            ch.reindex()
            yield ('%s:%s:%d' % (b[0], b[1], pos), ch, hist, kind)
    # failing conditions on transitions of atomic states (evaluated once per selection)
    if dm in CONDFAULT:
        for s in base.doc:
            if C.is_atomic(s) and s.kind == 'state':
                for ti in range(len(s.trans)):
                    ch = copy.deepcopy(base)
                    t = ch.by_id[s.id].trans[ti]
                    t.cond = ('failcond', CONDFAULT[dm])
                    yield ('cond:%s:%d' % (s.id, ti), ch, hist, 'illegal-condition')


def render(ch, dm):
    ch2 = copy.deepcopy(ch)

    def conv(acts):
        out = []
        for a in acts:
            if a[0] == 'fail': out.append(('xml', a[2]))
            elif a[0] == 'refassignneg': continue
            elif a[0] == 'if': out.append(('if', [(c, conv(b)) for c, b in a[1]], conv(a[2]) if a[2] is not None else None))
            else: out.append(a)
        return out
    for s in ch2.doc:
        s.onentry = [conv(b) for b in s.onentry]; s.onexit = [conv(b) for b in s.onexit]
        for t in s.trans: t.content = conv(t.content)
        if s.initial_elem: s.initial_elem = (s.initial_elem[0], conv(s.initial_elem[1]))
    return C.render(ch2, dm)


# reference support for the extra abstract forms
_orig_run1 = refscxml.Ref.run1


def _run1(r, a):
    if a[0] == 'refassignneg':
        r.env[a[1]] = -r.env[a[2]]; return
    return _orig_run1(r, a)


refscxml.Ref.run1 = _run1
_orig_ev = C.ev_expr
_orig_rn = C.rn_expr


def work(job):
    binary, cases = job
    built = []
    for cid, seed, dm in cases:
        n = 0
        for tag, ch, hist, kind in variants(seed, dm):
            n += 1
            built.append(('%s#%d' % (cid, n), tag, ch, hist, dm, kind))
    run = []
    refs = {}
    # faults in exit handlers are also run with a cancel() at the end of the history: the completion path runs the exit handlers of
    # every state that is still active (a different piece of code than an ordinary exit)
    built += [(vid + 'c', tag, ch, hist, dm, kind) for vid, tag, ch, hist, dm, kind in built if tag.startswith('onexit:')]
    for vid, tag, ch, hist, dm, kind in built:
        ref = FaultRef(ch); ref.interpret(hist, cancel_end=vid.endswith('c'))
        refs[vid] = ref
        if ref.diverged: continue
        run.append({'id': vid, 'xml': render_cond(ch, dm), 'engine': 'large', 'hist': hist, 'flags': ['cancelend'] if vid.endswith('c') else []})
        if zlib.crc32(vid.encode()) % 2 == 0:
            # the other engine has its own try/catch blocks around handlers: same document, judged against the reference under its selection rule
            run.append({'id': vid + '@fast', 'xml': render_cond(ch, dm), 'engine': 'fast', 'hist': hist, 'flags': ['cancelend'] if vid.endswith('c') else []})
    res = c01lib.run_batch(binary, run)
    out = []
    for vid, tag, ch, hist, dm, kind in built:
        ref = refs[vid]
        rec = {'id': vid, 'kind': kind, 'where': tag.split(':')[0] + ('+cancel' if vid.endswith('c') else ''), 'dm': dm, 'v': 'ok', 'hash': vid}
        if ref.diverged: rec['v'] = 'diverged'; out.append(rec); continue
        p = res[vid]
        rec['errors_expected'] = sum(1 for e in ref.raised if e.startswith('error.'))
        rep = {'xml': render_cond(ch, dm), 'history': hist, 'datamodel': dm, 'fault': kind, 'position': tag}
        if p['timeout']:
            rec['v'] = 'bad'; rec['k'] = 'hang:' + kind; rec['replay'] = rep
        elif p['crash']:
            rec['v'] = 'bad'; rec['k'] = 'crash:%s:%s' % (kind, dm); rep['stderr'] = p.get('stderr'); rep['summary'] = p['crash']; rec['replay'] = rep
        elif p['thrown']:
            rec['v'] = 'bad'; rec['k'] = 'exception-escapes-step:' + kind; rep['thrown'] = p['thrown']; rec['replay'] = rep
        else:
            v, k, d = c01lib.compare_case(ch, hist, dm, 'large', p, ref)
            if v == 'deviation':
                # exact attribution to the listed structural findings of C01 (they are not about errors)
                k2 = None
                if k in ('history-target-static-domain', 'nested-history-shared-store'): k2 = 'c01:' + k
                else:
                    r2 = FaultRef(ch, ('static_domain',)); r2.interpret(hist, cancel_end=vid.endswith('c'))
                    if not r2.diverged and c01lib.compare_case(ch, hist, dm, 'large', p, r2)[0] == 'ok': k2 = 'c01:history-target-static-domain'
                if k2: rec['v'] = 'c01-finding'
                else:
                    rec['v'] = 'bad'; rec['k'] = 'error-handling-differs:%s:%s' % (kind, classify(d)); rep['first_divergence'] = d; rec['replay'] = rep
        out.append(rec)
        pf = res.get(vid + '@fast')
        if pf is not None and rec['v'] in ('ok', 'c01-finding'):
            recf = {'id': vid + '@fast', 'kind': kind, 'where': rec['where'] + '@fast', 'dm': dm, 'v': 'ok', 'hash': vid + '@fast', 'errors_expected': rec['errors_expected']}
            repf = dict(rep, engine='fast')
            if pf['timeout']: recf['v'] = 'bad'; recf['k'] = 'hang:fast:' + kind; recf['replay'] = repf
            elif pf['crash']: recf['v'] = 'bad'; recf['k'] = 'crash:fast:%s:%s' % (kind, dm); repf['stderr'] = pf.get('stderr'); repf['summary'] = pf['crash']; recf['replay'] = repf
            elif pf['thrown']: recf['v'] = 'bad'; recf['k'] = 'exception-escapes-step:fast:' + kind; repf['thrown'] = pf['thrown']; recf['replay'] = repf
            else:
                verdicts = []
                for vs in (('static_select', 'static_domain'), (), ('static_domain',)):
                    rf = FaultRef(ch, vs); rf.interpret(hist, cancel_end=vid.endswith('c'))
                    if rf.diverged: verdicts.append(('diverged', None, None)); continue
                    verdicts.append(c01lib.compare_case(ch, hist, dm, 'fast', pf, rf))
                    if verdicts[-1][0] == 'ok': break
                if not any(v[0] in ('ok', 'diverged') for v in verdicts):
                    v, k, d = verdicts[0]
                    if k in ('nested-history-shared-store', 'history-target-static-domain'): recf['v'] = 'c01-finding'
                    else:
                        recf['v'] = 'bad'; recf['k'] = 'error-handling-differs:fast:%s:%s' % (kind, classify(d)); repf['first_divergence'] = d; recf['replay'] = repf
            out.append(recf)
    return out


def classify(d):
    if d.get('kind') == 'event-differs': return 'error-event-missing-or-out-of-order'
    if d.get('kind') == 'actions-differ':
        ra = [a for a in d['ref']['acts'] if a[0] == 'log']; ua = [a for a in d['impl']['acts'] if a[0] == 'log']
        if len(ua) > len(ra): return 'content-after-failing-element-executed'
        if len(ua) < len(ra): return 'following-content-skipped'
    return d.get('kind', 'differs')


class FaultRef(refscxml.Ref):
    def cond(r, t):
        if t.cond is not None and t.cond[0] == 'failcond':
            key = id(t)
            if key not in r._condseen:
                r._condseen.add(key)
                r.iq.append('error.execution'); r.raised.append('error.execution')
            return False
        return refscxml.Ref.cond(r, t)

    def select(r, ev):
        r._condseen = set()       # a failing condition is evaluated (and reported) once per transition selection
        return refscxml.Ref.select(r, ev)


def render_cond(ch, dm):
    # conditions of kind ('failcond', text) are rendered verbatim
    saved = C.rn_expr

    def rn(e, d):
        if e[0] == 'failcond': return e[1]
        return saved(e, d)
    C.rn_expr = rn
    try:
        return render(ch, dm)
    finally:
        C.rn_expr = saved


# ------------------------------------------------------------------------------------------ XML mutants (crash only)
def mutate(xml, rng):
    ops = rng.randint(1, 3)
    for _ in range(ops):
        r = rng.random()
        tags = [m for m in re.finditer(r'<(\w+)([^<>]*?)(/?)>', xml)]
        if not tags: break
        m = rng.choice(tags)
        if r < 0.2:      # drop an attribute
            attrs = re.findall(r'\s\w+="[^"]*"', m.group(2))
            if attrs:
                a = rng.choice(attrs); xml = xml[:m.start()] + m.group(0).replace(a, '', 1) + xml[m.end():]
        elif r < 0.45:   # junk attribute value
            attrs = list(re.finditer(r'(\w+)="([^"]*)"', m.group(0)))
            if attrs:
                a = rng.choice(attrs)
                junk = rng.choice(['', ' ', '-1', '99999999999999999999', 'nil', '&lt;', "'", 'x y z', '*', '#_nowhere', 's1 s1', '1e400', '%s' * 5, 'a' * 300, '_event', 'In(', ')(', '..'])
                new = m.group(0)[:a.start(2)] + junk + m.group(0)[a.end(2):]
                xml = xml[:m.start()] + new + xml[m.end():]
        elif r < 0.6:    # rename element
            new = rng.choice(['state', 'parallel', 'final', 'history', 'transition', 'onentry', 'onexit', 'initial', 'datamodel', 'data', 'invoke', 'finalize', 'send', 'raise', 'if', 'else', 'foreach', 'content', 'param', 'donedata', 'script'])
            xml = xml[:m.start()] + '<' + new + m.group(2) + m.group(3) + '>' + xml[m.end():]
            if not m.group(3):
                # keep well-formed: rename the matching close tag (first following one)
                close = xml.find('</%s>' % m.group(1), m.start())
                if close >= 0: xml = xml[:close] + '</%s>' % new + xml[close + len(m.group(1)) + 3:]
        elif r < 0.75:   # duplicate a self-closing element
            if m.group(3): xml = xml[:m.end()] + m.group(0) + xml[m.end():]
        elif r < 0.9:    # delete a self-closing element
            if m.group(3): xml = xml[:m.start()] + xml[m.end():]
        else:            # add attributes
            extra = rng.choice([' initial="nowhere"', ' target="nowhere"', ' type="deep"', ' delay="-5s"', ' event=""', ' cond=""', ' src="file:///nonexistent"', ' id=""', ' binding="late"', ' datamodel="none"'])
            if extra.split('=')[0].strip() not in m.group(2):
                xml = xml[:m.start()] + '<' + m.group(1) + m.group(2) + extra + m.group(3) + '>' + xml[m.end():]
    return xml


def mutant_work(job):
    binary, seeds = job
    jobs = []; meta = {}
    import xml.dom.minidom
    for sd in seeds:
        rng = random.Random(sd)
        dm = rng.choice(['lua', 'promela', 'null'])
        ch, hist = c01lib.make_case(sd % 100000, dm)
        x = mutate(C.render(ch, dm), rng)
        try: xml.dom.minidom.parseString(x)
        except Exception: continue          # the statement is about well-formed XML
        jid = 'm%d' % sd
        eng = rng.choice(['large', 'fast'])
        jobs.append((jid, T.job_text(jid, eng, x, hist[:3], maxsteps=200, flags=['validate', 'novars'])))
        meta[jid] = (x, hist[:3], dm, eng)
    raw = T.run_jobs(binary, jobs, timeout_per_job=1)
    out = []
    for jid, (x, hist, dm, eng) in meta.items():
        r = raw.get(jid, {'crash': 'no result', 'timeout': False, 'lines': []})
        rec = {'id': jid, 'v': 'ok'}
        if r['timeout']:
            validated = any(l.startswith('VDONE') for l in r['lines'])
            rec['v'] = 'bad'; rec['k'] = 'mutant:hang:%s:%s' % (eng, 'while-stepping' if validated else 'in-validate-or-parse'); rec['replay'] = {'xml': x, 'history': hist, 'engine': eng}
        elif r['crash']:
            rec['v'] = 'bad'; rec['k'] = 'mutant:crash:' + str(r['crash'])[:100]; rec['replay'] = {'xml': x, 'history': hist, 'engine': eng, 'stderr': r.get('stderr')}
        rec['threw'] = any(l.startswith('THROW') for l in r['lines'])
        out.append(rec)
    return out


# ----------------------------------------------------------------------------- robustness corpus
# Constructs whose failure surfaces outside the micro stepper's try/catch (at dequeue, on helper paths, in C library calls). No reference
# trace is demanded for them: the oracle is "no crash, no sanitizer report, no exception out of step(), no hang", on both engines.
ROBUST = {
    'lua': {
        'elements': ['<assign location="x" expr="error({code=1})"/>', '<log label="RL" expr="{[true]=1}"/>', '<log label="RL" expr="{[{}]=1, a=2}"/>',
                     '<send event="rfoo"><content expr="nosuch.field"/></send>', '<send event="rfoo"><param name="p" expr="nosuch.field"/></send>',
                     '<send event="rfoo" namelist="nosuchvar"/>', '<script>error({1,2})</script>', '<script>error()</script>', '<foreach array="{[true]=1}" item="it"><log label="RF"/></foreach>',
                     '<assign location="x" expr="setmetatable({}, {__tostring = function() error(\'ts\') end})"/>', '<raise event="rbar"/><send event="rfoo" delay="1ms"><content expr="x.y.z"/></send>',
                     '<send eventexpr="nosuch.field"/>', '<send event="rfoo" targetexpr="nosuch.field"/>', '<send event="rfoo" delayexpr="nosuch.field"/>', '<cancel sendidexpr="nosuch.field"/>'],
        'conds': ['error({code=1})', 'error()', '{[true]=1}', 'nosuch.field'],
        'content': ['nosuch.field', 'error({1})', '{[true]=1}'],
        'data': '<data id="x" expr="0"/>'},
    'promela': {
        'elements': ['<assign location="x" expr="(0-2147483647-1) / (0-1)"/>', '<assign location="x" expr="(0-2147483647-1) % (0-1)"/>', '<assign location="x" expr="sa[2]"/>', '<assign location="sa[2]" expr="5"/>',
                     '<assign location="x" expr="sa[3]"/>', '<assign location="sa[3]" expr="5"/>', '<assign location="x" expr="sa[0-1]"/>', '<log label="RL" expr="sa"/>', '<assign location="x" expr="2147483647 + 1"/>',
                     '<send event="rfoo"><content expr="nosuch"/></send>', '<send event="rfoo"><param name="p" expr="nosuch"/></send>'],
        'conds': ['(0-2147483647-1) / (0-1)', 'sa[3]', 'nosuch'],
        'content': ['nosuch', 'sa[3]'],
        'data': '<data id="x" type="int" expr="0"/><data id="sa" type="int[3]">[1,2]</data>'},
}


def robust_docs():
    NS = 'http://www.w3.org/2005/07/scxml'
    out = []
    for dm, R in ROBUST.items():
        def doc(body): return '<scxml xmlns="%s" version="1.0" datamodel="%s" initial="s0"><datamodel>%s</datamodel>%s<state id="ok"/></scxml>' % (NS, dm, R['data'], body)
        for i, el in enumerate(R['elements']):
            out.append(('%s:onentry:%d' % (dm, i), doc('<state id="s0"><onentry>%s</onentry><transition event="e1" target="ok"/></state>' % el)))
            out.append(('%s:onexit:%d' % (dm, i), doc('<state id="s0"><onexit>%s</onexit><transition event="e1" target="ok"/></state>' % el)))
            out.append(('%s:transition:%d' % (dm, i), doc('<state id="s0"><transition event="e1" target="ok">%s</transition></state>' % el)))
            out.append(('%s:initial-transition:%d' % (dm, i), doc('<state id="s0"><initial><transition target="a">%s</transition></initial><state id="a"/><transition event="e1" target="ok"/></state>' % el)))
            out.append(('%s:finalize:%d' % (dm, i), doc('<state id="s0"><invoke type="scxml" id="ri"><content><scxml xmlns="%s" version="1.0" datamodel="null"><state id="c"><onentry><send target="#_parent" event="fromchild"/></onentry></state></scxml></content>'
                                                         '<finalize>%s</finalize></invoke><transition event="fromchild" target="ok"/><transition event="e1" target="ok"/></state>' % (NS, el))))
        for i, c in enumerate(R['conds']):
            ce = c.replace('&', '&amp;').replace('<', '&lt;').replace('"', '&quot;')
            out.append(('%s:cond:%d' % (dm, i), doc('<state id="s0"><transition cond="%s" target="ok"/><transition event="e1" cond="%s" target="ok"/><transition event="error.execution" target="ok"/></state>' % (ce, ce))))
            out.append(('%s:if-cond:%d' % (dm, i), doc('<state id="s0"><onentry><if cond="%s"><log label="RI"/><elseif cond="%s"/><log label="RI"/></if></onentry><transition event="e1" target="ok"/></state>' % (ce, ce))))
        for i, c in enumerate(R['content']):
            ce = c.replace('&', '&amp;').replace('<', '&lt;').replace('"', '&quot;')
            out.append(('%s:donedata-content:%d' % (dm, i), doc('<state id="s0" initial="a"><state id="a"><transition target="f"/></state><final id="f"><donedata><content expr="%s"/></donedata></final><transition event="done.state.s0" target="ok"/></state>' % ce)))
            out.append(('%s:donedata-param:%d' % (dm, i), doc('<state id="s0" initial="a"><state id="a"><transition target="f"/></state><final id="f"><donedata><param name="p" expr="%s"/></donedata></final><transition event="done.state.s0" target="ok"/></state>' % ce)))
            out.append(('%s:invoke-param:%d' % (dm, i), doc('<state id="s0"><invoke type="scxml" id="ri"><param name="p" expr="%s"/><content><scxml xmlns="%s" version="1.0" datamodel="null"><final id="c"/></scxml></content></invoke><transition event="e1" target="ok"/></state>' % (ce, NS))))
    # data initialisation that fails (property: "... in data initialisation"): unreachable src, failing expr, inline text that is no value;
    # at the top (early binding), in a state entered later (late binding) and inside an invoked document
    for dm in ('lua', 'promela', 'null'):
        dattr = ' datamodel="%s"' % dm if dm != 'null' else ''
        faults = ['<data id="dx" src="file:///nonexistent/uscxml-verif/none.json"/>', '<data id="dx" src="nosuchscheme://x/y"/>']
        if dm == 'lua': faults += ['<data id="dx" expr="nofn()"/>', '<data id="dx" expr="1 +* 2"/>', '<data id="dx">{ not lua at all ]]</data>']
        if dm == 'promela': faults += ['<data id="dx" type="int" expr="nodecl + 1"/>', '<data id="dx" type="int" expr="7 / 0"/>', '<data id="dx" type="int[2]">[1,2,3,4,</data>']
        for i, f in enumerate(faults):
            for binding in ('early', 'late'):
                out.append(('%s:data-root-%s:%d' % (dm, binding, i), '<scxml xmlns="%s" version="1.0"%s binding="%s" initial="s0"><datamodel>%s</datamodel><state id="s0"><transition event="e1" target="ok"/></state><state id="ok"/></scxml>' % (NS, dattr, binding, f)))
                out.append(('%s:data-state-%s:%d' % (dm, binding, i), '<scxml xmlns="%s" version="1.0"%s binding="%s" initial="s0"><state id="s0"><transition event="e1" target="ok"/></state><state id="ok"><datamodel>%s</datamodel></state></scxml>' % (NS, dattr, binding, f)))
    # an <invoke> whose attributes cannot be evaluated (or that cannot be started), in a state that is left afterwards
    for dm, bad in (('lua', 'nofn()'), ('promela', 'nodecl + 1')):
        for i, attrs in enumerate(['typeexpr="%s"' % bad, 'type="scxml" srcexpr="%s"' % bad, 'type="http://example.com/no-such-invoker"', 'type="scxml" src="file:///nonexistent/uscxml-verif/child.scxml"',
                                   'type="scxml" id="iv" namelist="nodeclvar"', 'type="scxml" idlocation="no.such.location"']):
            out.append(('%s:invoke-attr:%d' % (dm, i), '<scxml xmlns="%s" version="1.0" datamodel="%s" initial="s0"><state id="s0"><invoke %s><content><scxml xmlns="%s" version="1.0" datamodel="null"><state id="c"/></scxml></content></invoke>'
                        '<transition event="e1" target="ok"/></state><state id="ok"><transition event="e1" target="s0"/></state></scxml>' % (NS, dm, attrs, NS)))
    return out


def robust_work(job):
    binary, docs = job
    run = [{'id': '%s|%s' % (name, e), 'xml': x, 'engine': e, 'hist': ['e1', 'e1'], 'flags': ['drain']} for name, x in docs for e in ('large', 'fast')]
    res = c01lib.run_batch(binary, run)
    out = []
    for name, x in docs:
        for e in ('large', 'fast'):
            p = res['%s|%s' % (name, e)]
            thrown = [l for l in p['lines'] if l.startswith(('THROW', 'THROWSTD'))]
            key = None
            if p['timeout']: key = 'robust:hang'
            elif p['crash']: key = 'robust:crash:' + str(p['crash'])[:90]
            elif thrown: key = 'robust:exception-out-of-step:' + thrown[0].split(' ')[0] + ':' + ' '.join(thrown[0].split(' ')[1:3])[:60]
            out.append((name, e, key, x if key else None, (p.get('stderr') or '')[-1500:] if key else None))
    return out


def main(tier, replay):
    chk = Check('C07', tier, level='fault_enumeration')
    common.build('asan')
    binary = common.harness('vdrv', 'asan')
    if replay:
        case = json.load(open(replay))['case']
        p = c01lib.run_batch(binary, [{'id': 'r', 'xml': case['xml'], 'engine': 'large', 'hist': case['history']}])['r']
        print('\n'.join(l for l in p['lines'] if l[:2] in ('E ', 'L ', 'R ', 'MA', 'TH'))[:4000]); print(p['crash']); sys.exit(1 if p['crash'] or p['timeout'] else 0)
    ndocs = 54 if tier == 'quick' else 600
    base = chk.seed * 1000000 + 707
    cases = [('f%d' % i, base + i, ('lua', 'promela', 'null')[i % 3] if i % 9 else 'null') for i in range(ndocs)]
    jobs = [(binary, cases[i:i + 2]) for i in range(0, len(cases), 2)]
    verd = collections.Counter(); kinds = collections.Counter(); wheres = collections.Counter()
    for out in common.pmap(work, jobs):
        for rec in out:
            chk.count(); verd[rec['v']] += 1
            if rec['v'] == 'diverged': continue
            kinds[rec['kind']] += 1; wheres[rec['where']] += 1
            if rec.get('errors_expected'): chk.nontrivial(rec['hash'])
            if rec['v'] == 'bad': chk.report(rec['k'], rec['replay'], '%s %s' % (rec['id'], rec['k']))
            elif rec['v'] == 'ok' and len(chk.samples) < 4 and rec.get('errors_expected'):
                chk.sample({'case': rec['id'], 'fault': rec['kind'], 'block': rec['where'], 'datamodel': rec['dm'], 'error_events_expected': rec['errors_expected']})
    nm = 1500 if tier == 'quick' else 50000
    mjobs = [(binary, list(range(base * 3 + i, base * 3 + min(i + 60, nm)))) for i in range(0, nm, 60)]
    mv = collections.Counter(); threw = 0
    for out in common.pmap(mutant_work, mjobs):
        for rec in out:
            chk.count(); mv[rec['v']] += 1; threw += 1 if rec['threw'] else 0
            if rec['v'] == 'bad': chk.report(rec['k'], rec['replay'], '%s %s' % (rec['id'], rec['k']))
    rdocs = robust_docs()
    rjobs = [(binary, rdocs[i:i + 12]) for i in range(0, len(rdocs), 12)]
    rn = 0
    for out in common.pmap(robust_work, rjobs):
        for name, e, key, x, err in out:
            chk.count(); rn += 1
            if key: chk.report(key, {'xml': x, 'history': ['e1', 'e1'], 'engine': e, 'construct': name, 'stderr': err}, '%s engine=%s %s' % (name, e, key))
            else: chk.nontrivial('robust:' + name + e)
    chk.add('robustness_corpus_runs', rn)
    chk.add('fault_runs', dict(verd)); chk.add('fault_kinds', dict(kinds)); chk.add('blocks', dict(wheres)); chk.add('xml_mutants', dict(mv)); chk.add('xml_mutants_rejected_with_exception', threw)
    chk.rule = ('fault enumeration: for every executable block (onentry, onexit, transition, initial/history transition content) of each generated document and every position in it, one failing element '
                '(drawn from the per-datamodel fault list; 30% nested in an <if>) is injected, plus failing conditions on transitions of atomic states; each run is compared step by step with the reference '
                'in which the element enqueues its error and aborts the block. Second workload: seeded mutations of well-formed documents, crash/hang only. Third workload: a corpus of constructs that fail outside the try/catch of the micro stepper (content/param/namelist expressions evaluated at dequeue, error objects that are not strings, tables with non-string keys, INT_MIN / -1, short array initialisers, <finalize>, invoke params) in every block kind, both engines: no crash, no exception out of step(), no hang. distinct_nontrivial = fault runs in which the reference expects >=1 error event')
    chk.assumptions = ['expected error event names per fault kind are listed in vf/checks/c07.py FAULTS', 'a failing condition is reported once per transition selection',
                       'memory safety is what ASan/UBSan can see']
    chk.min_distinct = 100
    chk.finish()


if __name__ == '__main__':
    common.main_wrapper(main)
