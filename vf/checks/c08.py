"""C08 - External events are processed exactly once, in order, at macrostep boundaries.

N producer threads call Interpreter::receive with uniquely named events while one thread steps (blocking and non-blocking);
the chart answers every external event with two raised internal events and an eventless transition that raises a third.
Offline checker over the recorded history: exactly-once, per-producer FIFO, macrostep rule; ThreadSanitizer reports with a
frame in the anchored files are violations. Schedule points (USCXML_VERIF hooks) yield/sleep with seeded probability.
"""
import os, sys, json, collections, random
from vf import common, thr
from vf.common import Check

CHART = os.path.join(common.VERIF, 'charts', 'c08.scxml')
ANCHORS = ['BasicEventQueue.cpp', 'BasicEventQueue.h', 'InterpreterImpl.cpp', 'InterpreterImpl.h', 'LargeMicroStep.cpp', 'FastMicroStep.cpp', 'Interpreter.cpp', 'EventQueue.cpp']


def analyse(recs, nprod, nev):
    """-> list of (key, detail)"""
    bad = []
    stepper = [r for r in recs if r[2] in ('stepper', 'main')]
    ev = [r for r in stepper if r[3] == 'E']
    names = [r[4].split(' ')[1] for r in ev]
    ext = [n for n in names if n.startswith('p')]
    cnt = collections.Counter(ext)
    sent = set(r[4] for r in recs if r[3] == 'SENT')
    dup = [n for n, c in cnt.items() if c > 1]
    lost = [n for n in sent if n not in cnt]
    phantom = [n for n in cnt if n not in sent and ('SEND', n) not in set((r[3], r[4]) for r in recs)]
    if dup: bad.append(('event-processed-twice', {'events': dup[:5], 'count': len(dup)}))
    if lost: bad.append(('event-lost', {'events': sorted(lost)[:5], 'count': len(lost)}))
    if phantom: bad.append(('event-never-sent-was-processed', {'events': phantom[:5]}))
    last = {}
    for n in ext:
        i, k = n[1:].split('.'); i, k = int(i), int(k)
        if i in last and k < last[i]:
            bad.append(('per-producer-order-violated', {'producer': i, 'processed': k, 'after': last[i]})); break
        last[i] = k
    # macrostep rule: after an external event: micro step, eventless micro step, i.a, i.b, i.c (in raise order), exactly one stable notice, then the next external
    cur = None; seq = []
    for r in stepper:
        if r[3] == 'E':
            n = r[4].split(' ')[1]
            if n.startswith('p'):
                if cur is not None and seq != ['MB', 'MB', 'i.a', 'MB', 'i.b', 'MB', 'i.c', 'MB', 'S']:
                    bad.append(('macrostep-rule-violated', {'external': cur, 'observed': seq, 'expected': ['MB', 'MB', 'i.a', 'MB', 'i.b', 'MB', 'i.c', 'MB', 'S']})); break
                cur = n; seq = []
            elif cur is not None: seq.append(n)
        elif r[3] in ('MB', 'S') and cur is not None: seq.append(r[3])
    return bad, len(ext)


def one(job):
    flavour, seed, nprod, nev, yld, engine = job[:6]
    early = job[6] if len(job) > 6 else 0
    block = job[7] if len(job) > 7 else 0
    kw = {'yield': yld, 'engine': engine}
    if block:
        nev = min(nev, 300); nprod = 2 if seed % 3 else nprod      # few producers: nobody else wakes the stepper when one enqueue fails to
        # every enqueue dwells at its entry (before the queue's lock is taken): whatever it looked at there is stale by the time it pushes
        if seed % 4: kw['script'] = 'beq.enqueue.pre@prod:sleep:1500*'     # producer threads only: the stepper stays faster than they are
    r = thr.run(flavour, 'producers', CHART, timeout=180, producers=nprod, events=nev, seed=seed, early=early, block=block, pace=400 if block else 0, **kw)
    rec = {'job': job, 'bad': [], 'processed': 0, 'sigs': set(), 'tsan': {}, 'tsan_other': {}}
    if r['timeout']:
        rec['bad'].append(('hang', {'stderr': r['err'][-1500:]})); return rec
    recs = thr.records(r['out'])
    if r['rc'] != 0 and flavour == 'asan':
        rec['bad'].append(('crash:' + (common.sanitizer_summary(r['err']) or 'rc=%s' % r['rc'])[:100], {'stderr': r['err'][-3000:]})); return rec
    if not any(x[3] == 'DONE' for x in recs):
        rec['bad'].append(('driver-did-not-finish:rc=%s' % r['rc'], {'stderr': r['err'][-2000:]})); return rec
    bad, n = analyse(recs, nprod, nev)
    if block:
        # a stepper asleep in step(block): after an event was enqueued (SENT) its next sign of life must come long before the blocking period is over
        srt = sorted(recs)
        st_times = [x[1] for x in srt if x[2] == 'stepper']
        import bisect
        worst = 0
        for x in srt:
            if x[3] == 'SENT':
                i = bisect.bisect_right(st_times, x[1])
                nxt = st_times[i] if i < len(st_times) else None
                if nxt is not None: worst = max(worst, nxt - x[1])
        rec['worst_wakeup_us'] = worst
        if worst > block * 1000 * 2 // 3:
            bad.append(('stepper-not-woken-by-enqueue', {'stepper_silent_for_us_after_an_enqueue': worst, 'blocking_period_ms': block}))
    rec['bad'] = bad; rec['processed'] = n
    rec['sigs'] = thr.signatures(recs, ('SEND',), 6)
    if flavour == 'tsan':
        att, un = thr.tsan_reports(r['err'], ANCHORS)
        rec['tsan'] = dict(att); rec['tsan_other'] = dict(un)
        for sig, c in att.items(): rec['bad'].append(('tsan:' + sig[:140], {'count': c, 'report': r['err'][:4000]}))
    if rec['bad']: rec['args'] = r['args']
    return rec


def main(tier, replay):
    chk = Check('C08', tier)
    common.build('tsan'); common.build('asan')
    common.harness('vthr', 'tsan'); common.harness('vthr', 'asan')
    if replay:
        case = json.load(open(replay))['case']
        rec = one(tuple(case['job'])); print(rec['bad']); sys.exit(1 if rec['bad'] else 0)
    rng = chk.rng
    runs = 80 if tier == 'quick' else 1500
    jobs = []
    for i in range(runs):
        nprod = rng.choice([2, 4, 8]); nev = rng.choice([100, 300, 600]) if nprod < 8 else rng.choice([50, 150])
        jobs.append(('tsan' if i % 4 else 'asan', chk.seed * 10000 + i, nprod, nev, rng.choice([0, 50, 200, 500]), 'large' if i % 3 else 'fast', 1 if i % 5 == 2 else 0, 3000 if i % 2 == 1 else 0))
    sigs = set(); processed = 0; other = collections.Counter()
    for rec in common.pmap(one, jobs, workers=min(8, common.NPROC)):
        chk.count(); processed += rec['processed']; sigs |= rec['sigs']
        for k, v in rec['tsan_other'].items(): other[k] += v
        if not rec['bad']: chk.nontrivial(str(rec['job']))
        for key, det in rec['bad']:
            chk.report(key, {'job': list(rec['job']), 'detail': det, 'args': rec.get('args')}, 'job %s: %s' % (rec['job'], key))
        if not rec['bad'] and len(chk.samples) < 3:
            chk.sample({'flavour': rec['job'][0], 'producers': rec['job'][2], 'events_per_producer': rec['job'][3], 'yield_permille': rec['job'][4], 'external_events_processed': rec['processed']})
    chk.add('external_events_processed', processed); chk.add('distinct_interleaving_signatures', len(sigs)); chk.add('tsan_reports_outside_anchored_files', dict(other))
    need = 20 if tier == "quick" else 150
    if len(sigs) < need: chk.inconc('only %d distinct interleaving signatures observed (< %d)' % (len(sigs), need))
    chk.rule = ('each run = N in {2,4,8} producer threads x M uniquely named events against one stepping thread mixing step(0)/step(1)/step(5), or sleeping in step(3000) (every other run, mostly with 2 producers: every enqueue must wake it within 2 s) (in 1 of 5 runs the producers start before the first step()), seeded yields/sleeps at the USCXML_VERIF schedule points; '
                'TSan build (3 of 4 runs) and ASan build; offline checker: every sent event processed exactly once, per-producer order, and per external event the exact internal sequence (micro step, eventless micro step, i.a, i.b, i.c, one stable notice). '
                'distinct_nontrivial = runs without violation; interleaving signature = hash of the (thread role, site) sequence of the 6 schedule-point hits following a receive()')
    chk.assumptions = ['interleavings are sampled, not enumerated', 'TSan reports are attributed only when a frame lies in the anchored files; others are listed, not judged']
    chk.min_distinct = 10
    chk.finish()


if __name__ == '__main__':
    common.main_wrapper(main)
