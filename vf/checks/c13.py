"""C13 - Monitor notifications are a well-nested, complete account of execution.

Online-style push-down checker (vf/protocol.py) over every callback recorded from both engines on: random documents with
histories, documents with failing elements injected (error paths), cancel scripts and runs ending in a top-level final.
"""
import os, sys, json, collections, random
from vf import common, chart as C, trace as T, c01lib, protocol
from vf.common import Check

FAIL_XML = '<send event="never" type="unsupported-io-processor"/>'


def inject_error(ch, rng, dm='lua'):
    """Replace one action somewhere by a failing element (possibly nested in an <if>)."""
    blocks = []
    for s in ch.doc:
        if s.kind == 'history': blocks += [t.content for t in s.trans if t.content]; continue
        blocks += [b for b in s.onentry + s.onexit if b]
        blocks += [t.content for t in s.trans if t.content]
        if s.initial_elem and s.initial_elem[1]: blocks.append(s.initial_elem[1])
    if not blocks: return False
    b = rng.choice(blocks)
    pos = rng.randint(0, len(b))
    fail = ('fail', 'error.execution', FAIL_XML)
    if rng.random() < 0.4 and dm != 'null':
        fail = ('if', [(('true',), [fail])], None)
    b.insert(pos, fail)
    return True


CHILD = ('<invoke type="scxml" id="%(id)s"%(auto)s><content><scxml xmlns="http://www.w3.org/2005/07/scxml" version="1.0" datamodel="null">'
         '<state id="c1"><onentry><send target="#_parent" event="%(hello)s"/></onentry>%(trans)s</state><final id="cf"/></scxml></content>%(fin)s</invoke>')


def add_invokes(ch, rng, dm):
    """One or two states get an inline invoked session: it greets the parent and finishes at once / on a forwarded event / never; optional
    <finalize> and autoforward. The parent's monitor must bracket invocation and cancellation outside every micro step."""
    cands = [s for s in ch.proper() if s.kind != 'final']
    for k, s in enumerate(rng.sample(cands, min(len(cands), rng.randint(1, 2)))):
        kind = rng.choice(['now', 'event', 'never'])
        trans = {'now': '<transition target="cf"/>', 'event': '<transition event="e1 e2" target="cf"/>', 'never': ''}[kind]
        fin = '<finalize><log label="FIN%d"/></finalize>' % k if rng.random() < 0.5 else ''
        s.extra_xml = [CHILD % {'id': 'inv%d' % k, 'auto': ' autoforward="true"' if rng.random() < 0.5 else '', 'hello': rng.choice(['child.hello', 'e2', 'i1']), 'trans': trans, 'fin': fin}]
        if rng.random() < 0.3:
            # an invocation that cannot be started: its notices must be balanced like any other's
            bad = '<invoke type="http://example.com/no-such-invoker" id="brk%d"/>' % k
            s.extra_xml = [bad] + s.extra_xml if rng.random() < 0.5 else s.extra_xml + [bad]


def render_fail(ch, dm):
    # 'fail' actions are rendered through the 'xml' kind
    def conv(acts):
        out = []
        for a in acts:
            if a[0] == 'fail': out.append(('xml', a[2]))
            elif a[0] == 'if': out.append(('if', [(c, conv(b)) for c, b in a[1]], conv(a[2]) if a[2] is not None else None))
            else: out.append(a)
        return out
    import copy
    c2 = copy.deepcopy(ch)
    for s in c2.doc:
        s.onentry = [conv(b) for b in s.onentry]; s.onexit = [conv(b) for b in s.onexit]
        for t in s.trans: t.content = conv(t.content)
        if s.initial_elem: s.initial_elem = (s.initial_elem[0], conv(s.initial_elem[1]))
    return C.render(c2, dm)


def work(job):
    binary, cases = job
    jobs = []; meta = {}
    for cid, seed, dm, mode in cases:
        rng = random.Random(seed)
        ch, h = c01lib.make_case(seed, dm)
        xml = None
        if mode == 'error':
            if not inject_error(ch, rng, dm): mode = 'plain'
            else: xml = render_fail(ch, dm)
        if mode == 'invoke': add_invokes(ch, rng, dm)
        if mode == 'delayed':
            # events that reach the internal queue from the timer thread while the session is idle (delayed #_internal send, error.communication
            # for a delayed send that cannot be delivered): their macrosteps need a stable notice like any other
            first = ch.root.states()[0] if not ch.root.initial_attr else ch.by_id[ch.root.initial_attr[0]]
            first.onentry.insert(0, [('xml', '<send event="i1" delay="%dms" target="#_internal"/>' % rng.randint(20, 60)),
                                     ('xml', '<send event="e2" delay="%dms"/>' % rng.randint(20, 90)),
                                     ('xml', '<send event="lost" delay="%dms" target="#_nosuchinvoke"/>' % rng.randint(20, 90))][:rng.randint(1, 3)])
        if xml is None: xml = C.render(ch, dm)
        for eng in ('large', 'fast'):
            jid = '%s:%s' % (cid, eng)
            if mode == 'monitors':
                # a second monitor is attached at one stable point and detached at a later one: in between it sees exactly what the first one
                # sees, before and after nothing
                k = rng.randint(2, 6)
                ops = ['step0'] * k + ['mon2add'] + ['recv ' + rng.choice(['e1', 'e2', 'e3'])] + ['step0'] * 10 + ['recv ' + rng.choice(['e1', 'e2'])] + ['step0'] * 10 + ['mon2del'] + ['recv ' + rng.choice(['e1', 'e2', 'e3'])] + ['step0'] * 10
                jobs.append((jid, T.job_text(jid, eng, xml, ops=ops, flags=['novars'])))
            elif mode == 'cancel':
                k = rng.randint(1, 8)   # receive() before the first step() is C10's subject
                # cancel at different points: idle, right after an event was queued, and in the middle of the macrostep it starts
                mid = rng.randint(0, 3)
                ops = ['step0'] * k + ['recv ' + rng.choice(['e1', 'e2', 'e3'])] + ['step0'] * mid + ['cancel'] + ['step0'] * 12
                jobs.append((jid, T.job_text(jid, eng, xml, ops=ops, flags=['novars'])))
            else:
                fl = ['novars'] + (['drain'] if mode == 'delayed' else []) + ([rng.choice(['lambda-after', 'lambda-before'])] if mode == 'lambda' else [])
                jobs.append((jid, T.job_text(jid, eng, xml, h, flags=fl)))
            meta[jid] = (cid, eng, dm, mode, xml, h)
    raw = T.run_jobs(binary, jobs)
    out = []
    for jid, (cid, eng, dm, mode, xml, h) in meta.items():
        r = raw.get(jid, {'lines': [], 'crash': 'no result', 'timeout': False})
        rec = {'id': jid, 'mode': mode, 'dm': dm, 'v': 'ok'}
        lines = [l for l in r['lines'] if not l.startswith('B ') and not l.startswith('M2 ') and not l.startswith('LM ')]
        if r['timeout']: rec['v'] = 'timeout'; out.append(rec); continue
        if r['crash']:
            rec['v'] = 'bad'; rec['k'] = 'crash:' + str(r['crash'])[:80]; rec['replay'] = {'xml': xml, 'history': h, 'engine': eng, 'mode': mode, 'stderr': r.get('stderr')}
            out.append(rec); continue
        if any(l.startswith('STEPCAP') for l in lines): rec['v'] = 'diverged'; out.append(rec); continue
        V, st = protocol.check(lines)
        rec['stats'] = st
        rec['errors_seen'] = sum(1 for l in lines if l.startswith('E error.'))
        rec['finished'] = any(l == 'R -1' for l in lines)
        rec['cancelled'] = any(l == 'R 6' for l in lines)
        rec['invocations'] = sum(1 for l in lines if l.startswith('IA '))
        rec['hash'] = jid
        if not V and mode == 'monitors':
            # the second monitor's account = the first one's between attach and detach
            CB = ('E ', 'MB', 'MA', 'XB', 'XA', 'NB', 'NA', 'TB', 'TA', 'CB', 'CA', 'S ', 'KB', 'KA', 'IB', 'IA', 'UB', 'UA')
            all_ = r['lines']
            try: a = all_.index('OP mon2add'); b = all_.index('OP mon2del')
            except ValueError: a = b = None
            if a is not None:
                m2 = [l[3:] for l in all_ if l.startswith('M2 ')]
                m2_in = [l[3:] for l in all_[a:b] if l.startswith('M2 ')]
                m1_in = [l for l in all_[a:b] if l[:2] in CB and not l.startswith('M2 ')]
                rec['monitor_callbacks_compared'] = len(m1_in)
                if len(m2) != len(m2_in): V = [('second-monitor-notified-outside-its-attachment', b, 'callbacks in all: %d, between attach and detach: %d' % (len(m2), len(m2_in)))]
                elif [l for l in m2_in if l[:2] in CB] != m1_in:
                    i = next((i for i, (x, y) in enumerate(zip(m2_in, m1_in)) if x != y), min(len(m2_in), len(m1_in)))
                    V = [('second-monitor-sees-a-different-account', a, 'first difference at callback %d: first monitor %r, second %r (%d vs %d callbacks)' % (i, m1_in[i:i + 1], m2_in[i:i + 1], len(m1_in), len(m2_in)))]
        if not V and mode == 'lambda':
            # the lambda front end (Interpreter::on()) registered for all 'before' or all 'after' notices: its account is the monitor's, restricted to those
            lm = [l[3:] for l in r['lines'] if l.startswith('LM ')]
            side = 'A' if any(l[:2] in ('MA', 'NA', 'XA', 'TA', 'CA', 'KA') for l in lm) or not any(l[:2] in ('MB', 'NB', 'XB', 'TB', 'CB', 'KB') for l in lm) else 'B'
            codes = set(c + side for c in 'MNXTCIUK')
            norm = lambda l: l.split(' ')[0] if l[:2] in ('MA', 'MB', 'KA', 'KB') or l[:1] == 'S' else (l.rsplit(' ', 1)[0] if l.startswith('E ') else l)
            want = [norm(l) for l in r['lines'] if not l.startswith(('LM ', 'B ', 'M2 ')) and (l.split(' ')[0] in codes or l.startswith(('E ', 'S ')) or l == 'S')]
            got = [l if l.startswith('E ') else norm(l) for l in lm]
            rec['lambda_callbacks_compared'] = len(want)
            if want != got:
                i = next((i for i, (x, y) in enumerate(zip(want, got)) if x != y), min(len(want), len(got)))
                V = [('lambda-monitor-account-differs', i, 'registered for the %s notices: expected %r, got %r (%d vs %d callbacks)' % ('after' if side == 'A' else 'before', want[i:i + 2], got[i:i + 2], len(want), len(got)))]
        if V:
            rule, n, text = V[0]
            rec['v'] = 'bad'; rec['k'] = rule
            rec['replay'] = {'xml': xml, 'history': h, 'engine': eng, 'mode': mode, 'datamodel': dm, 'rule': rule, 'at_line': n, 'text': text,
                             'context': lines[max(0, n - 12):n + 4], 'all_rules': sorted(set(v[0] for v in V))}
        out.append(rec)
    return out


def main(tier, replay):
    chk = Check('C13', tier)
    common.build('asan')
    binary = common.harness('vdrv', 'asan')
    if replay:
        case = json.load(open(replay))['case']
        jid = 'r'
        raw = T.run_jobs(binary, [(jid, T.job_text(jid, case['engine'], case['xml'], case['history'], flags=['novars']))])
        V, st = protocol.check(raw[jid]['lines'])
        print(V[:5]); sys.exit(1 if V else 0)
    base = chk.seed * 1000000 + 1313
    n = 3000 if tier == 'quick' else 20000
    cases = []
    for i in range(n):
        dm = ('lua', 'promela', 'null')[i % 3] if i % 7 else 'null'
        mode = ('plain', 'error', 'plain', 'cancel', 'error', 'invoke', 'delayed', 'monitors', 'lambda')[i % 9]
        cases.append(('c%d' % i, base + i, dm, mode))
    jobs = [(binary, cases[i:i + 30]) for i in range(0, len(cases), 30)]
    verd = collections.Counter(); tot = collections.Counter()
    for out in common.pmap(work, jobs):
        for rec in out:
            chk.count(); verd[rec['v']] += 1
            if rec['v'] in ('diverged',): continue
            if rec['v'] == 'timeout': chk.inconc('timeout ' + rec['id']); continue
            if 'stats' in rec:
                for k, v in rec['stats'].items(): tot[k] += v
                if rec['errors_seen']: tot['runs_with_error_events'] += 1
                if rec['finished']: tot['runs_finished'] += 1
                if rec['cancelled']: tot['runs_cancelled'] += 1
                if rec.get('invocations'): tot['runs_with_invocations'] += 1; tot['invocations'] += rec['invocations']
                if rec['stats']['microsteps'] > 1: chk.nontrivial(rec['hash'])
            if rec['v'] == 'bad':
                chk.report(rec['k'], rec['replay'], '%s mode=%s %s' % (rec['id'], rec['mode'], rec['k']))
            elif len(chk.samples) < 5 and rec.get('stats', {}).get('microsteps', 0) > 3:
                chk.sample({'case': rec['id'], 'mode': rec['mode'], 'datamodel': rec['dm'], 'callbacks': rec['stats']['callbacks'], 'microsteps': rec['stats']['microsteps']})
    chk.add('verdicts', dict(verd))
    for k, v in tot.items(): chk.add(k, v)
    if tot['runs_with_error_events'] < 50 or tot['runs_cancelled'] < 50 or tot['runs_finished'] < 50 or tot['runs_with_invocations'] < 50:
        chk.inconc('too few error/cancel/finished runs observed: %s' % dict(tot))
    chk.rule = ('each run = (document, history or API script, engine); all callbacks recorded through InterpreterMonitor are fed to a push-down protocol checker: balanced before/after, '
                'micro-step phases exits->transitions->entries, nothing outside brackets except event processing/invocation/stable/completion, content inside the bracket of its owner, '
                'configuration after a micro step explained by reported exits and entries, each log line inside its <log> bracket, exactly one stable notice per macrostep. '
                'Modes: plain, failing element injected (error path), cancel script, states with inline invoked sessions (invocation brackets, finalize, autoforward), delayed sends whose events arrive from the timer thread while the session is idle (blocking steps), a second monitor attached and detached at stable points (it must see exactly what the first one sees in between). distinct_nontrivial = runs with more than one micro step.')
    chk.assumptions = ['"executed" is observed through logs/configuration/events only', 'the final exit on completion is reported by the Completion bracket alone (test-lifecycle convention)']
    chk.min_distinct = 100
    chk.finish()


if __name__ == '__main__':
    common.main_wrapper(main)
