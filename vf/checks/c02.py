"""C02 - The active configuration is legal after every microstep (engines large and fast; emitted C via C04's scaffold).

Online invariant monitor: the legality predicate of Rec. 3.11 is evaluated (on the source tree, independent of the
engines' tables) on the configuration reported after initialisation and after every micro step, plus root entry/exit
counts. Documents with a FATAL validation issue are skipped and counted (the property is conditional on validation).
"""
import os, sys, json, collections
from vf import common, chart as C, trace as T, c01lib
from vf.common import Check
from vf.checks.c01 import NONTRIVIAL


def legality(ch, parsed):
    """-> list of (kind, step index, reason) from the parsed trace of one run."""
    bad = []
    root_enter = 0; root_exit = 0
    for i, s in enumerate(parsed['steps']):
        if s.get('ev') == '#completion': continue
        for a in s['acts']:
            if a[0] == 'enter' and a[1] == 'root': root_enter += 1
            if a[0] == 'exit' and a[1] == 'root': root_exit += 1
        if s.get('conf') is not None and not s.get('noop'):
            why = C.is_legal_configuration(ch, s['conf'])
            if why: bad.append(('illegal-configuration', i, why, s))
    if parsed['final'] is not None and parsed['steps']:
        why = C.is_legal_configuration(ch, parsed['final'])
        if why: bad.append(('illegal-final-configuration', len(parsed['steps']), why, None))
    if root_enter != 1 and parsed['steps']: bad.append(('root-entered-%d-times' % root_enter, 0, '', None))
    if root_exit != 0: bad.append(('root-exited-before-completion', 0, '', None))
    return bad


def key_for(ch, kind, step):
    """finding key: known defect predicates on the micro-step that produced the illegal configuration"""
    if step is not None:
        tr = [a for a in step['acts'] if a[0] == 'trans']
        hist_t = [x for t in tr for x in ch.by_id[t[1]].trans[t[2]].targets if ch.by_id[x].kind == 'history'] if all(t[1] in ch.by_id for t in tr) else []
        hs = [q for q in ch.doc if q.kind == 'history']
        nested = any(a is not b and a.htype == 'deep' and C.is_descendant(b.parent, a.parent) for a in hs for b in hs)
        if hist_t and nested:
            return 'nested-history-shared-store'
        prev_illegal = C.is_legal_configuration(ch, step.get('before') or []) is not None if step.get('before') else False
        if prev_illegal:
            return None   # follow-up of an earlier illegal configuration: judged there
    return kind


def work(job):
    binary, cases = job
    built = []
    for cid, kind, arg, dm, hist in cases:
        if kind == 'rand': ch, h = c01lib.make_case(arg, dm)
        else: ch, h = arg, hist
        built.append((cid, ch, h, dm))
    run = []
    for cid, ch, h, dm in built:
        x = C.render(ch, dm)
        for eng in ('large', 'fast'):
            run.append({'id': cid + ':' + eng, 'xml': x, 'engine': eng, 'hist': h, 'flags': ['validate', 'novars']})
    res = c01lib.run_batch(binary, run)
    out = []
    for cid, ch, h, dm in built:
        for eng in ('large', 'fast'):
            p = res[cid + ':' + eng]
            rec = {'id': cid, 'eng': eng, 'dm': dm, 'hash': C.chart_hash(ch) + ':' + ','.join(h) + ':' + eng, 'configs': sum(1 for s in p['steps'] if s.get('conf') is not None),
                   'nontrivial': bool(ch.features() & NONTRIVIAL) and len(p['steps']) > 1, 'v': 'ok'}
            fatal = [l for l in p['lines'] if l.startswith('VI FATAL')]
            if fatal:
                rec['v'] = 'fatal-skipped'; rec['fatal'] = fatal[0]; out.append(rec); continue
            if p['timeout']: rec['v'] = 'timeout'; out.append(rec); continue
            if p['crash']:
                rec['v'] = 'bad'; rec['k'] = 'crash:' + str(p['crash'])[:80]
                rec['replay'] = {'xml': C.render(ch, dm), 'history': h, 'engine': eng, 'stderr': p.get('stderr')}
                out.append(rec); continue
            bad = legality(ch, p)
            if bad:
                kind, i, why, step = bad[0]
                k = key_for(ch, kind, step)
                if k is not None:
                    rec['v'] = 'bad'; rec['k'] = k
                    rec['replay'] = {'xml': C.render(ch, dm), 'history': h, 'engine': eng, 'datamodel': dm, 'violation': kind, 'reason': why, 'step': i,
                                     'micro_step': step}
            out.append(rec)
    return out


def main(tier, replay):
    chk = Check('C02', tier)
    common.build('asan')
    binary = common.harness('vdrv', 'asan')
    if replay:
        case = json.load(open(replay))['case']
        p = c01lib.run_batch(binary, [{'id': 'r', 'xml': case['xml'], 'engine': case['engine'], 'hist': case['history']}])['r']
        print('\n'.join(l for l in p['lines'] if l[:2] in ('MB', 'MA', 'E ', 'EN')))
        sys.exit(0)
    base = chk.seed * 1000000 + 4242
    nrand = 5000 if tier == 'quick' else 30000
    cases = [('r%d' % i, 'rand', base + i, ('lua', 'promela', 'lua')[i % 3], None) for i in range(nrand)]
    cases += [('n%d' % i, 'rand', base + 700000 + i, 'null', None) for i in range(nrand // 4)]
    for i in range(nrand // 8):
        for nm, g in (('k', C.gen_conflict_chart), ('d', C.gen_done_chart), ('h', C.gen_hist_chart)):
            ch, h = g(base + 900000 + i)
            cases.append(('%s%d' % (nm, i), 'fam', ch, ('lua', 'null')[i % 2], h))
    fam = list(C.family_E(2, 2)) if tier == 'quick' else list(C.family_E(3, 2))
    n = 0
    for ch in fam:
        for h in ([['e1', 'e1']] if tier == 'quick' else [['e1'], ['e1', 'e1', 'e1']]):
            cases.append(('E%d' % n, 'fam', ch, 'lua', h)); n += 1
    chk.add('family_E_documents', len(fam))
    jobs = [(binary, cases[i:i + 40]) for i in range(0, len(cases), 40)]
    verd = collections.Counter(); configs = 0
    for out in common.pmap(work, jobs):
        for rec in out:
            chk.count(); verd[rec['v']] += 1; configs += rec['configs']
            if rec['nontrivial'] and rec['v'] != 'fatal-skipped': chk.nontrivial(rec['hash'])
            if rec['v'] == 'timeout': chk.inconc('timeout in ' + rec['id'])
            elif rec['v'] == 'bad': chk.report(rec['k'], rec['replay'], '%s engine=%s %s' % (rec['id'], rec['eng'], rec['k']))
            elif rec['v'] == 'fatal-skipped' and verd['fatal-skipped'] <= 3: chk.add('fatal_example_%d' % verd['fatal-skipped'], rec['fatal'])
            elif len(chk.samples) < 5 and rec['nontrivial']:
                chk.sample({'case': rec['id'], 'engine': rec['eng'], 'datamodel': rec['dm'], 'configurations_checked': rec['configs']})
    # emitted C machines: configurations recorded by the C04 scaffold, same predicate
    try:
        from vf.checks import c04
        c04.legality_part(chk, tier)
    except ImportError:
        chk.add('emitted_C', 'not run: C04 scaffold not available')
    chk.add('verdicts', dict(verd)); chk.add('configurations_checked', configs)
    chk.rule = ('runs = (document, history, engine) for engines large and fast over seeded random documents (lua/promela/null) and family E; after initialisation and after every '
                'micro step the reported configuration is checked with the Rec. 3.11 predicate computed on the source tree; <scxml> must be entered once and never exited before completion. '
                'distinct_nontrivial = distinct (document, history, engine) with more than the initial step using parallel/history/targetless/internal/multi-target/raise')
    chk.assumptions = ['documents with FATAL validation issues are skipped (counted in verdicts.fatal-skipped)']
    chk.min_distinct = 100
    chk.finish()


if __name__ == '__main__':
    common.main_wrapper(main)
