"""C10 - Interpreter life-cycle is well defined and always terminates.

(1) API-sequence fuzzing (vdrv script mode, ASan): seeded scripts over {step(0), step(10), receive, cancel, reset, serialize,
    destroy, create}; step() results are checked online against the life-cycle automaton; crashes are attributed per script.
(2) cross-thread scripts (vthr cancelrace, TSan+ASan): a stepper blocked in step() is cancelled / fed from another thread;
    must reach FINISHED, run every onexit once, and destruction must return.
(3) create/destroy churn with yields at the timer-thread schedule points, plus the forced script that parks the timer thread
    between its _isStarted test and event_base_loop while stop() runs (the lost-wake-up window).
(4) reset equivalence: trace(run h1; reset; run h2) == trace(fresh run h2).
A hang is reported with gdb stack samples.
"""
import os, sys, json, random, collections, shutil
from vf import common, chart as C, trace as T, c01lib, thr
from vf.common import Check

ANCHORS = ['InterpreterImpl.cpp', 'InterpreterImpl.h', 'BasicDelayedEventQueue.cpp', 'BasicDelayedEventQueue.h', 'LargeMicroStep.cpp', 'FastMicroStep.cpp', 'USCXMLInvoker.cpp', 'BasicEventQueue.cpp', 'Interpreter.cpp']


def automaton(results_with_ops, cancel_ops_visible=False):
    """results_with_ops: list of ('R', code) / ('OP', name). -> None or reason
    cancel_ops_visible: the sequence contains every cancel() as an ('OP', 'cancel') item (single-threaded scripts); CANCELLED is then
    only acceptable after a cancel() issued since the interpreter was created / reset."""
    st = 'new'    # new -> init -> running -> cancelled -> finished
    cancel_requested = False
    for kind, v in results_with_ops:
        if kind == 'OP':
            if v in ('reset', 'create', 'deser'): st = 'new' if v != 'deser' else 'running'
            if v in ('reset', 'create'): cancel_requested = False
            if v == 'cancel': cancel_requested = True
            if v == 'destroy': st = 'destroyed'
            continue
        code = v
        if code == 6 and cancel_ops_visible and not cancel_requested:
            return 'step() returned CANCELLED although cancel() was not called since creation/reset'
        if st == 'new':
            if code != 2: return 'first step() returned %d, not INITIALIZED' % code
            st = 'running'
        elif st == 'running':
            if code in (4, 5, 1): pass
            elif code == 6: st = 'cancelled'
            elif code == -1: st = 'finished'
            else: return 'step() returned %d while running' % code
        elif st == 'cancelled':
            if code != -1: return 'step() after CANCELLED returned %d, not FINISHED' % code
            st = 'finished'
        elif st == 'finished':
            if code != -1: return 'step() after FINISHED returned %d (FINISHED is absorbing)' % code
    return None


def fuzz_work(job):
    binary, seeds = job
    jobs = []; meta = {}
    for sd in seeds:
        rng = random.Random(sd)
        dm = rng.choice(['lua', 'promela', 'null'])
        ch, hist = c01lib.make_case(sd % 1000003, dm)
        ops = []
        n = rng.randint(3, 40)
        alive = True; stepped = False
        for _ in range(n):
            r = rng.random()
            if not alive:
                ops.append('create'); alive = True; stepped = False; continue
            if r < 0.45: ops.append('step0'); stepped = True
            elif r < 0.55: ops.append('step 10'); stepped = True
            elif r < 0.75: ops.append('recv ' + rng.choice(C.EVENTS))
            elif r < 0.82: ops.append('cancel')
            elif r < 0.88: ops.append('reset'); stepped = False
            elif r < 0.93: ops.append('ser')
            elif r < 0.96: ops.append('state')
            else: ops.append('destroy'); alive = False
        jid = 'a%d' % sd
        jobs.append((jid, T.job_text(jid, rng.choice(['large', 'fast', 'default']), C.render(ch, dm), ops=ops, flags=['novars'])))
        meta[jid] = (ops, C.render(ch, dm), dm)
    raw = T.run_jobs(binary, jobs)
    out = []
    for jid, (ops, xml, dm) in meta.items():
        r = raw.get(jid, {'lines': [], 'crash': 'no result', 'timeout': False})
        rec = {'id': jid, 'bad': [], 'steps': 0}
        rep = {'xml': xml, 'ops': ops, 'datamodel': dm}
        seq = []
        lastop = None
        for l in r['lines']:
            if l.startswith('OP '): lastop = l[3:]; seq.append(('OP', l[3:].split(' ')[0]))
            elif l.startswith('R '): seq.append(('R', int(l[2:]))); rec['steps'] += 1
        first_recv_before_step = False
        stepped = False
        for o in ops:
            if o.startswith('step'): stepped = True
            if o in ('reset', 'create'): stepped = False
            if o.startswith(('recv', 'cancel')) and not stepped: first_recv_before_step = True; break
        if r['timeout']:
            rec['bad'].append(('api:hang-after:%s' % (lastop or '?').split(' ')[0], dict(rep, last_op=lastop)))
        elif r['crash']:
            key = 'api:crash-after:%s' % (lastop or '?').split(' ')[0]
            if first_recv_before_step and (lastop or '').startswith(('recv', 'cancel')): key = 'api:receive-or-cancel-before-first-step-crashes'
            rec['bad'].append((key, dict(rep, last_op=lastop, summary=str(r['crash'])[:200], stderr=r.get('stderr'))))
        else:
            why = automaton(seq, cancel_ops_visible=True)
            if why: rec['bad'].append(('lifecycle:' + why.split(',')[0][:70], dict(rep, results=[x for x in seq][:80], reason=why)))
        out.append(rec)
    return out


CANCEL_CHART = '''<scxml xmlns="http://www.w3.org/2005/07/scxml" version="1.0" datamodel="%(dm)s">
 <state id="a"><onexit><send event="never" type="unsupported-io-processor"/><log label="XA0" expr="1"/></onexit><onexit><log label="XA" expr="1"/></onexit>
  <state id="a1"><onexit><log label="XA1" expr="1"/></onexit>%(delayed)s<transition event="go" target="a2"/></state>
  <state id="a2"><onexit><log label="XA2" expr="1"/></onexit></state>
 </state>
</scxml>'''


def cancel_work(job):
    flavour, seed, op, dm, engine, outdir, delayed = job
    xml = CANCEL_CHART % {'dm': dm, 'delayed': '<onentry><send event="later" delay="5s"/><send event="soon" delay="%dms"/></onentry>' % (20 + seed % 40) if delayed else ''}
    f = os.path.join(outdir, 'c%d_%s.scxml' % (seed, op)); open(f, 'w').write(xml)
    r = thr.run_with_stacks(flavour, 'cancelrace', f, timeout=25, seed=seed, op=op, afterms=10 + seed % 50, engine=engine, **{'yield': (0, 200)[seed % 2]})
    rec = {'job': list(job[:5]) + [delayed], 'bad': [], 'xml': xml}
    if r['timeout']:
        st = ' '.join(r.get('stacks', []))
        frames = sorted(set(x for x in ('dequeue', 'cancelAllDelayed', 'event_del', 'stop', 'join', 'timerCallback', 'eventReady', '~InterpreterImpl') if x in st))
        rec['bad'].append(('blocked:%s:%s' % (op, '+'.join(frames)), {'stacks': [s[-5000:] for s in r.get('stacks', [])]})); return rec
    if r['rc'] != 0: rec['bad'].append(('crash:%s:%s' % (op, (common.sanitizer_summary(r['err']) or 'rc=%s' % r['rc'])[:100]), {'stderr': r['err'][-3000:]})); return rec
    recs = thr.records(r['out'])
    res = [int(x[4]) for x in recs if x[3] == 'R']
    seq = [('R', c) for c in res]
    why = automaton(seq)
    if why: rec['bad'].append(('lifecycle:' + why[:70], {'results': res[:60]}))
    if not res or res[-1] != -1: rec['bad'].append(('cancel-did-not-finish', {'results': res[-10:]}))
    logs = collections.Counter(x[4].split(':')[0] for x in recs if x[3] == 'L')
    active_a2 = any(x[3] == 'NB' and x[4].endswith(' a2') for x in recs)
    want = {'XA': 1, 'XA2' if active_a2 else 'XA1': 1, 'XA0': 0}      # a's first exit handler fails before its log: only that block is cut short
    if active_a2: want['XA1'] = 1
    for k, v in want.items():
        if logs.get(k, 0) != v: rec['bad'].append(('onexit-handlers-on-cancel:%s-ran-%d-times' % (k, logs.get(k, 0)), {'logs': dict(logs)})); break
    if not any(x[3] == 'DESTROY' and x[4] == 'end' for x in recs): rec['bad'].append(('destruction-did-not-return', {}))
    if flavour == 'tsan':
        att, un = thr.tsan_reports(r['err'], ANCHORS)
        for sig, c in att.items(): rec['bad'].append(('tsan:' + sig[:150], {'count': c, 'report': r['err'][:3500]}))
    rec['sigs'] = thr.signatures(recs, ('OP',), 8)
    return rec


def resetrace_work(job):
    flavour, seed, engine, outdir = job
    xml = CANCEL_CHART % {'dm': 'lua', 'delayed': ''}
    f = os.path.join(outdir, 'rr%d.scxml' % seed); open(f, 'w').write(xml)
    r = thr.run_with_stacks(flavour, 'resetrace', f, timeout=120, seed=seed, engine=engine, producers=2 + seed % 3, events=3000, resets=300, **{'yield': (0, 300)[seed % 2]})
    rec = {'job': list(job[:3]), 'bad': [], 'resets': 0}
    if r['timeout']:
        rec['bad'].append(('reset-vs-receive:hang', {'stacks': [s[-4000:] for s in r.get('stacks', [])]})); return rec
    if r['rc'] != 0: rec['bad'].append(('reset-vs-receive:crash:' + (common.sanitizer_summary(r['err']) or 'rc=%s' % r['rc'])[:100], {'stderr': r['err'][-3000:]})); return rec
    recs = thr.records(r['out'])
    rec['resets'] = sum(1 for x in recs if x[3] == 'RESET' and x[4] == 'end')
    if flavour == 'tsan':
        att, un = thr.tsan_reports(r['err'], ANCHORS)
        for sig, c in att.items(): rec['bad'].append(('tsan:' + sig[:150], {'count': c, 'report': r['err'][:3500]}))
    return rec


def reset_invoke_work(job):
    """reset() while an invoked session is running: the session of the life that ends must be stopped by the time reset() returns (a freshly
    created interpreter has no children from an earlier life)."""
    flavour, seed, engine, outdir = job
    from vf.checks import c11
    rng = random.Random(seed)
    pr = {'kids': ['c1'], 'Tc': rng.choice([2, 3, 5]), 'T': 7, 'NC': 60, 'NP': 3, 'Dc': {'c1': None}, 'Dp': None, 'af': False, 'flash': False, 'revisit': 0, 'Da': 5,
          'leave_on_done': False, 'fwd': 0, 'fwdms': 1, 'to': 'c1', 'par': False, 'Db': None, 'final_on_leave': False, 'broken': None, 'exitsend': False}
    xml = c11.parent_xml(pr)
    if seed % 2: xml = xml.replace('<invoke type="scxml" id="c1"', '<invoke type="scxml"', 1)      # generated invoke id: the second life's invocation does not replace the first
    f = os.path.join(outdir, 'ri%d.scxml' % seed); open(f, 'w').write(xml)
    r = thr.run_with_stacks(flavour, 'timers', f, timeout=60, seed=seed, engine=engine, quiet=250, gquiet=1, maxms=8000,
                            script='inv.start.done:set:started,inv.start.done:sleep:%d' % rng.choice([0, 2000, 15000]), stopwhen='started', atstop='reset')
    rec = {'job': list(job[:3]), 'bad': [], 'xml': xml}
    if r['timeout']:
        rec['bad'].append(('reset-with-invocation:hang', {'stacks': [s[-4000:] for s in r.get('stacks', [])]})); return rec
    if r['rc'] != 0: rec['bad'].append(('reset-with-invocation:crash:' + (common.sanitizer_summary(r['err']) or 'rc=%s' % r['rc'])[:100], {'stderr': r['err'][-3000:]})); return rec
    recs = sorted(thr.records(r['out']), key=lambda x: x[0])
    rend = [x for x in recs if x[3] == 'RESET' and x[4] == 'end']
    if not rend: rec['reached'] = False; return rec
    rec['reached'] = True
    parent_sid = next((x[4].split(' ')[0] for x in recs if x[3] in ('MB', 'NB')), None)
    before = set(x[4].split(' ')[0] for x in recs if x[0] < rend[0][0] and x[3] in ('MB', 'E', 'NB') and x[4].split(' ')[0] != parent_sid)
    late = [x for x in recs if x[0] > rend[0][0] and x[3] in ('MB', 'E', 'NB', 'CB') and x[4].split(' ')[0] in before]
    rec['children_before_reset'] = len(before)
    if late:
        rec['bad'].append(('reset:invoked-session-of-the-previous-life-still-running', {'child_sessions_before_reset': sorted(before), 'records_after_reset_returned': len(late), 'first': list(late[0])}))
    return rec


def churn_work(job):
    flavour, seed, count, script, outdir = job
    xml = CANCEL_CHART % {'dm': 'lua', 'delayed': '<onentry><send event="later" delay="2s"/></onentry>' if seed % 2 else ''}
    f = os.path.join(outdir, 'ch%d.scxml' % seed); open(f, 'w').write(xml)
    kw = {'yield': 300, 'count': count, 'seed': seed}
    if script: kw['script'] = script
    r = thr.run_with_stacks(flavour, 'churn', f, timeout=120, **kw)
    rec = {'job': list(job[:4]), 'bad': [], 'cycles': 0}
    if r['timeout']:
        st = ' '.join(r.get('stacks', []))
        frames = sorted(set(x for x in ('join', 'stop', 'event_base_loop', 'cancelAllDelayed', 'event_del', 'timerCallback', '~BasicDelayedEventQueue') if x in st))
        recs = thr.records(r['out'])
        rec['bad'].append(('destruction-hangs:' + '+'.join(frames), {'stacks': [s[-5000:] for s in r.get('stacks', [])]})); return rec
    if r['rc'] != 0: rec['bad'].append(('churn-crash:' + (common.sanitizer_summary(r['err']) or 'rc=%s' % r['rc'])[:100], {'stderr': r['err'][-3000:]})); return rec
    recs = thr.records(r['out'])
    rec['cycles'] = sum(1 for x in recs if x[3] == 'D')
    rec['reached'] = any(x[3] == 'HS' for x in recs)
    if flavour == 'tsan':
        att, un = thr.tsan_reports(r['err'], ANCHORS)
        for sig, c in att.items(): rec['bad'].append(('tsan:' + sig[:150], {'count': c, 'report': r['err'][:3500]}))
    rec['sigs'] = thr.signatures(recs, ('D',), 6)
    return rec


def reset_work(job):
    binary, seeds = job
    jobs = []; meta = {}
    for sd in seeds:
        rng = random.Random(sd)
        dm = rng.choice(['lua', 'promela'])
        ch, h1 = c01lib.make_case(sd % 1000003, 'lua', evcond=False)
        h2 = [rng.choice(C.EVENTS) for _ in range(rng.randint(1, 4))]
        if sd % 4 == 0:
            # what a history remembers belongs to the session that ends: the first life records one (e1.. walks, e2 leaves S), the second
            # life starts outside S and enters it through the history before S was ever active
            ch, _ = C.gen_hist_chart(sd)
            ch.root.initial_attr = ['O']; ch.reindex()
            h1 = ['e3'] + ['e1'] * rng.randint(1, 3) + ['e2']; h2 = ['e3', 'e1']
        ref = c01lib.ref_run(ch, h1); ref2 = c01lib.ref_run(ch, h2)
        if ref.diverged or ref2.diverged: continue
        if dm == 'lua' and rng.random() < 0.5:
            # state that lives outside <datamodel>: a Lua global created by a script. reset() has to forget it like everything else
            for st in ch.proper()[:2]:
                st.onentry.insert(0, [('xml', '<script>gcount = (gcount or 0) + 1</script>'), ('xml', '<log label="G" expr="gcount"/>')])
        xml = C.render(ch, dm); eng = rng.choice(['large', 'fast', 'default'])

        def script(h):
            ops = []
            for e in h: ops += ['step0'] * 12 + ['recv ' + e]
            return ops + ['step0'] * 14
        a = 'ra%d' % sd; b = 'rb%d' % sd
        first = script(h1)
        r = rng.random()
        if r < 0.12: first = ['cancel']                                            # cancelled before the first step, then reset
        elif r < 0.3: first = first + ['cancel'] + ['step0'] * rng.randint(0, 3)     # cancelled (finalised or not yet) when reset() is called
        elif r < 0.4: first = first[:rng.randint(1, len(first))]                    # reset in the middle of a macrostep (internal events pending)
        jobs.append((a, T.job_text(a, eng, xml, ops=first + ['reset'] + script(h2) + ['vars'], flags=['novars'])))
        jobs.append((b, T.job_text(b, eng, xml, ops=script(h2) + ['vars'], flags=['novars'])))
        meta[sd] = (a, b, xml, h1, h2, eng, dm)
    raw = T.run_jobs(binary, jobs)
    out = []
    for sd, (a, b, xml, h1, h2, eng, dm) in meta.items():
        ra, rb = raw.get(a), raw.get(b)
        rec = {'id': sd, 'bad': []}
        rep = {'xml': xml, 'h1': h1, 'h2': h2, 'engine': eng, 'datamodel': dm}
        if not ra or not rb or ra['crash'] or rb['crash'] or ra['timeout'] or rb['timeout']:
            rec['bad'].append(('reset:crash-or-hang', dict(rep, a=str(ra and ra['crash'])[:200], b=str(rb and rb['crash'])[:200]))); out.append(rec); continue
        la = ra['lines']; i = max(k for k, l in enumerate(la) if l == 'OP reset')
        sem = lambda ls: [l for l in ls if l[:2] in ('E ', 'MB', 'MA', 'XB', 'NB', 'TB', 'L ', 'R ', 'S ', 'KB', 'KA') or l.startswith(('V ', 'END '))]
        sa, sb = sem(la[i + 1:]), sem(rb['lines'])
        if sa != sb:
            k = 0
            while k < min(len(sa), len(sb)) and sa[k] == sb[k]: k += 1
            la_ = sa[k] if k < len(sa) else 'END'; lb_ = sb[k] if k < len(sb) else 'END'
            key = 'reset:differs-from-fresh:%s/%s' % (la_.split(' ')[0], lb_.split(' ')[0])
            if la_.startswith('E ') and k < 6: key = 'reset:events-queued-before-reset-survive'
            elif la_.startswith('V ') or lb_.startswith('V '): key = 'reset:datamodel-not-reinitialised'
            rec['bad'].append((key, dict(rep, after_reset=sa[max(0, k - 3):k + 4], fresh=sb[max(0, k - 3):k + 4])))
        rec['compared'] = len(sb)
        out.append(rec)
    return out


def main(tier, replay):
    chk = Check('C10', tier)
    for fl in ('asan', 'tsan'): common.build(fl)
    dbin = common.harness('vdrv', 'asan'); common.harness('vthr', 'asan'); common.harness('vthr', 'tsan')
    if replay:
        case = json.load(open(replay))['case']; print(json.dumps(case, indent=1)[:6000]); sys.exit(0)
    outdir = common.scratch('c10')
    base = chk.seed * 1000000 + 1010
    q = tier == 'quick'
    # (1) API fuzz
    n = 1000 if q else 20000
    steps = 0
    for out in common.pmap(fuzz_work, [(dbin, list(range(base + i, base + min(i + 25, n)))) for i in range(0, n, 25)]):
        for rec in out:
            chk.count(); steps += rec['steps']
            if not rec['bad'] and rec['steps'] > 3:
                chk.nontrivial('api:' + rec['id'])
                if len(chk.samples) < 2: chk.sample({'workload': 'API script', 'script': rec['id'], 'step_results_checked': rec['steps']})
            for key, det in rec['bad']: chk.report(key, det, '%s %s' % (rec['id'], key))
    chk.add('api_scripts', n); chk.add('api_step_results_checked', steps)
    # (2) cross-thread cancel / receive
    n2 = 120 if q else 3000
    jobs = [(('tsan', 'asan')[i % 2], base + i, ('cancel', 'receive')[(i // 2) % 2], ('lua', 'promela')[(i // 4) % 2], ('large', 'fast')[(i // 8) % 2], outdir, bool((i // 3) % 2)) for i in range(n2)]
    sigs = set()
    for rec in common.pmap(cancel_work, jobs, workers=min(10, common.NPROC)):
        chk.count(); sigs |= rec.get('sigs', set())
        if not rec['bad']:
            chk.nontrivial('cross:%s' % rec['job'])
            if len(chk.samples) < 3: chk.sample({'workload': 'cross-thread ' + str(rec['job'][2]), 'flavour': rec['job'][0], 'datamodel': rec['job'][3], 'engine': rec['job'][4]})
        for key, det in rec['bad']: chk.report(key, {'job': rec['job'], 'xml': rec['xml'], 'detail': det}, 'cross-thread %s: %s' % (rec['job'], key))
    chk.add('cross_thread_runs', n2)
    # (3) churn + forced lost-wake-up window
    cyc = 0; reached = 0
    cj = [(('tsan', 'asan')[i % 2], base + i, 250 if q else 4000, None, outdir) for i in range(8 if q else 50)]
    cj += [(('asan', 'tsan')[i % 2], base + 100 + i, 40 if q else 300, 'deq.run.preloop:set:inwindow*,deq.run.preloop:sleep:3000*,deq.stop.prebreak:sleep:500*', outdir) for i in range(3 if q else 30)]
    for rec in common.pmap(churn_work, cj, workers=min(10, common.NPROC)):
        chk.count(); cyc += rec['cycles']; sigs |= rec.get('sigs', set())
        if rec['job'][3] and rec.get('reached'): reached += 1
        if not rec['bad']:
            chk.nontrivial('churn:%s' % rec['job'][:3])
            if len(chk.samples) < 4: chk.sample({'workload': 'create/destroy churn', 'flavour': rec['job'][0], 'cycles': rec['cycles'], 'forced_window': bool(rec['job'][3])})
        for key, det in rec['bad']: chk.report(key, {'job': rec['job'], 'detail': det}, 'churn %s: %s' % (rec['job'][:3], key))
    chk.add('create_destroy_cycles', cyc); chk.add('forced_preloop_window_runs_reached', reached)
    if reached == 0: chk.inconc('the forced deq.run.preloop window was never reached')
    # (3b) reset() / destruction while the timer thread sits in a delivery (forced windows shared with C09): must return, no crash
    from vf.checks import c09
    common.build('plain'); common.harness('vthr', 'plain')
    wjobs = [(('tsan', 'asan', 'plain')[k % 3], name, chk.seed * 1000 + k, ('lua', 'promela')[k % 2], ('large', 'fast')[(k // 2) % 2], outdir)
             for name in ('reset-in-window', 'destroy-in-window', 'destroy-in-long-window') for k in range(3 if q else 40)]
    wreached = collections.Counter()
    for rec in common.pmap(c09.run_script, wjobs, workers=min(8, common.NPROC)):
        chk.count(); sigs |= rec.get('sigs', set())
        if rec['reached']: wreached[rec['job'][1]] += 1
        if not rec['bad']: chk.nontrivial('window:%s' % rec['job'])
        for key, det in rec['bad']: chk.report(key, {'job': rec['job'], 'xml': rec['xml'], 'detail': det}, 'script %s: %s' % (rec['job'], key))
    chk.add('delivery_windows_reached', dict(wreached))
    for name in ('reset-in-window', 'destroy-in-window'):
        if wreached[name] == 0: chk.inconc('forced window of script %s was never reached' % name)
    # (3c) reset() on the stepping thread while producers call receive()
    rr = 0
    for rec in common.pmap(resetrace_work, [(('tsan', 'asan')[i % 2], base + 700000 + i, ('large', 'fast', 'default')[i % 3], outdir) for i in range(8 if q else 200)], workers=min(8, common.NPROC)):
        chk.count(); rr += rec['resets']
        if not rec['bad']: chk.nontrivial('resetrace:%s' % rec['job'])
        for key, det in rec['bad']: chk.report(key, {'job': rec['job'], 'detail': det}, 'reset race %s: %s' % (rec['job'], key))
    chk.add('resets_racing_with_receive', rr)
    if rr == 0: chk.inconc('the reset/receive race workload performed no reset')
    # (3d) reset() while an invoked session runs
    ri = 0
    for rec in common.pmap(reset_invoke_work, [(('tsan', 'asan')[i % 2], base + 750000 + i, ('large', 'fast')[(i // 2) % 2], outdir) for i in range(8 if q else 200)], workers=min(8, common.NPROC)):
        chk.count()
        if rec.get('reached') and rec.get('children_before_reset'): ri += 1
        if not rec['bad']: chk.nontrivial('resetinvoke:%s' % rec['job'])
        for key, det in rec['bad']: chk.report(key, {'job': rec['job'], 'xml': rec['xml'], 'detail': det}, 'reset with invocation %s: %s' % (rec['job'], key))
    chk.add('resets_with_running_invocation', ri)
    if ri == 0: chk.inconc('no reset() met a running invocation (hook inv.start.done never reached)')
    # (4) reset equivalence
    n4 = 200 if q else 6000; cmp_ = 0
    for out in common.pmap(reset_work, [(dbin, list(range(base + 500000 + i, base + 500000 + min(i + 20, n4)))) for i in range(0, n4, 20)]):
        for rec in out:
            chk.count(); cmp_ += rec.get('compared', 0)
            if not rec['bad']:
                chk.nontrivial('reset:%s' % rec['id'])
                if len(chk.samples) < 5: chk.sample({'workload': 'reset equivalence', 'case': rec['id'], 'records_compared': rec.get('compared', 0)})
            for key, det in rec['bad']: chk.report(key, det, 'reset %s: %s' % (rec['id'], key))
    chk.add('reset_records_compared', cmp_); chk.add('distinct_interleaving_signatures', len(sigs))
    shutil.rmtree(outdir, ignore_errors=True)
    chk.rule = ('(1) seeded API scripts of 3-40 operations checked against the life-cycle automaton, crashes attributed to the last operation; (2) stepper blocked in step() + cancel()/receive() from another thread '
                '(with and without pending delayed events), must reach FINISHED with every onexit once and destruction returning; (3) create/destroy churn with seeded yields and the forced timer-thread window; '
                '(3b) reset()/destruction while the timer thread is parked in a delivery; (4) trace(h1; reset; h2) = trace(fresh h2), also after cancel and mid-macrostep. distinct_nontrivial = runs/scripts without violation')
    chk.assumptions = ['"always terminates" = terminated within the watchdog in every explored schedule; every hang comes with two gdb stack samples', 'serialize() in an unstable state may throw (documented)']
    chk.min_distinct = 100
    chk.finish()


if __name__ == '__main__':
    common.main_wrapper(main)
