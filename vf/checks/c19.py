"""C19 - Validation verdicts are sound and do not reject valid charts.

(a) no false rejection: documents valid by construction (vf/chart.py, plus id-less states and multi-target/deep initial
    attributes) must get no FATAL issue and no 'Syntax error' warning from Interpreter::validate();
(b) soundness: single-fault documents that validate() lets through (no FATAL) are run on both engines under ASan/UBSan with
    the C02 legality monitor and pushed through the three transformers: no crash, no exception at initialisation, no illegal
    configuration;
(c) robustness: validate() on seeded XML mutants must return (no crash, no hang).
"""
import os, sys, json, random, re, copy, collections, shutil
from vf import common, chart as C, trace as T, c01lib, xform
from vf.common import Check


def valid_doc(seed, dm):
    """valid by construction, with the extras this property names: id-less states, multi-target deep initial attributes"""
    rng = random.Random(seed * 13 + 5)
    ch, hist = c01lib.make_case(seed, dm)
    # multi-target initial attribute into the regions of a parallel (deep)
    for s in ch.doc:
        if s.kind in ('state', 'scxml') and s.states() and rng.random() < 0.25:
            pars = [p for p in ch.proper() if p.kind == 'parallel' and C.is_descendant(p, s) and len(p.states()) >= 2]
            if pars:
                p = rng.choice(pars); a, b = p.states()[0], p.states()[1]
                pick = lambda r: rng.choice([r] + [q for q in ch.proper() if C.is_descendant(q, r)])
                s.initial_attr = [pick(a).id, pick(b).id]; s.initial_elem = None
    # an inline invoked machine is a document of its own: it may use the ids of this one (and transitions between them)
    if rng.random() < 0.3:
        host = [q for q in ch.proper() if q.kind == 'state']
        if host:
            h = rng.choice(host); ids = [q.id for q in ch.proper() if q.kind == 'state'][:2]
            inner = ''.join('<state id="%s"><transition event="ev%d" target="%s"/></state>' % (i, k, ids[(k + 1) % len(ids)]) for k, i in enumerate(ids))
            h.onentry.append([('xml', '<log label="INV"/>')])
            ch._invoke = (h.id, '<invoke type="scxml"><content><scxml xmlns="http://www.w3.org/2005/07/scxml" version="1.0" datamodel="null">%s</scxml></content></invoke>' % inner)
    xml = C.render(ch, dm)
    if getattr(ch, '_invoke', None):
        hid, inv = ch._invoke
        xml = re.sub(r'(<state id="%s"[^>]*>)' % re.escape(hid), lambda m: m.group(1) + inv, xml, count=1)
    # id-less states: atomic states/finals that nothing refers to (the id attribute is optional)
    referenced = set(re.findall(r"\b(s\d+|h\d+)\b", ' '.join(re.findall(r'(?:target|initial|cond|expr)="([^"]*)"', xml))))
    idless = 0
    for s in ch.doc:
        if s.kind in ('state', 'final') and not s.states() and not s.histories() and s.id not in referenced and rng.random() < 0.5:
            xml = xml.replace('<%s id="%s">' % (s.kind, s.id), '<%s>' % s.kind, 1); idless += 1
    return ch, hist, xml, idless


FAULTS = ['dangling-target', 'initial-attr-outside', 'history-no-default', 'history-two-defaults', 'history-default-outside', 'non-orthogonal-targets',
          'duplicate-id', 'initial-element-with-event', 'initial-element-with-cond', 'unknown-datamodel', 'initial-element-target-outside', 'initial-attr-nonexistent',
          'target-own-ancestor-and-descendant', 'transition-to-two-children-of-compound-via-initial', 'non-orthogonal-pair-among-three-targets',
          'shallow-history-default-deeper', 'non-orthogonal-deep-pair', 'history-default-two-non-orthogonal-targets']


def force_first(ch, hist, tr_targets, content=()):
    """make sure the arrangement is exercised: a fresh top-level state is the initial state and goes to the given targets on the first event"""
    st = C.St('zstart', 'state', ch.root); ch.root.children.insert(0, st)
    st.trans.append(C.Tr(st, ['e1'], None, list(tr_targets), False, list(content)))
    ch.root.initial_attr = ['zstart']; ch.root.initial_elem = None
    ch.reindex()
    return ['e1'] + list(hist)


def faulty_doc(seed, dm):
    """-> (fault kind, chart model after the fault (or None), xml, hist) ; None if the fault is not applicable to this document"""
    rng = random.Random(seed * 17 + 3)
    ch, hist = c01lib.make_case(seed, dm)
    kind = FAULTS[seed % len(FAULTS)]
    proper = ch.proper(); model = ch
    xml = None
    if kind == 'dangling-target':
        ts = [t for t in ch.transitions() if t.targets]
        if not ts: return None
        rng.choice(ts).targets[0] = 'nowhere'; xml = C.render(ch, dm); model = None
    elif kind == 'initial-attr-outside':
        cs = [s for s in proper if s.kind == 'state' and s.states()]
        if not cs: return None
        s = rng.choice(cs); out = [q for q in proper if not C.is_descendant(q, s) and q is not s]
        if not out: return None
        s.initial_attr = [rng.choice(out).id]; s.initial_elem = None
    elif kind == 'initial-attr-nonexistent':
        cs = [s for s in proper if s.kind == 'state' and s.states()]
        if not cs: return None
        s = rng.choice(cs); s.initial_attr = ['nowhere']; s.initial_elem = None; xml = C.render(ch, dm); model = None
    elif kind in ('history-no-default', 'history-two-defaults', 'history-default-outside'):
        hs = [s for s in ch.doc if s.kind == 'history']
        if not hs: return None
        h = rng.choice(hs)
        if kind == 'history-no-default':
            h.trans = []; xml = C.render(ch, dm); model = None
        elif kind == 'history-two-defaults':
            h.trans.append(C.Tr(h, None, None, [h.parent.states()[-1].id], False, []))
        else:
            out = [q for q in proper if not C.is_descendant(q, h.parent) and q is not h.parent]
            if not out: return None
            h.trans[0].targets = [rng.choice(out).id]
    elif kind == 'non-orthogonal-targets':
        cs = [s for s in proper if s.kind == 'state' and len(s.states()) >= 2]
        ts = [t for t in ch.transitions()]
        if not cs or not ts: return None
        s = rng.choice(cs); rng.choice(ts).targets = [s.states()[0].id, s.states()[1].id]
    elif kind == 'non-orthogonal-pair-among-three-targets':
        # two children of a compound state plus an id that is compatible with either of them (their parent), in any attribute order
        cs = [s for s in proper if s.kind == 'state' and len(s.states()) >= 2]
        ts = [t for t in ch.transitions()]
        if not cs or not ts: return None
        s = rng.choice(cs); tg = [s.states()[0].id, s.id, s.states()[1].id]
        if rng.random() < 0.5: rng.shuffle(tg)
        rng.choice(ts).targets = tg
    elif kind == 'transition-to-two-children-of-compound-via-initial':
        cs = [s for s in proper + [ch.root] if s.kind in ('state', 'scxml') and len(s.states()) >= 2]
        if not cs: return None
        s = rng.choice(cs); s.initial_attr = [s.states()[0].id, s.states()[1].id]; s.initial_elem = None
    elif kind == 'target-own-ancestor-and-descendant':
        ts = [t for t in ch.transitions()]
        cs = [s for s in proper if s.kind == 'state' and s.states()]
        if not ts or not cs: return None
        s = rng.choice(cs); rng.choice(ts).targets = [s.id, s.states()[-1].id]
    elif kind == 'shallow-history-default-deeper':
        # Rec. 3.10: the default transition of a shallow history must name immediate children of the history's parent
        hs = [h for h in ch.doc if h.kind == 'history' and h.htype == 'shallow' and any(C.is_descendant(q, h.parent) and q.parent is not h.parent for q in proper)]
        if not hs: return None
        h = rng.choice(hs)
        h.trans[0].targets = [rng.choice([q for q in proper if C.is_descendant(q, h.parent) and q.parent is not h.parent]).id]
        hist = force_first(ch, hist, [h.id])
    elif kind == 'history-default-two-non-orthogonal-targets':
        hs = [h for h in ch.doc if h.kind == 'history' and len(h.parent.states()) >= 2 and h.parent.kind == 'state']
        if not hs: return None
        h = rng.choice(hs); h.trans[0].targets = [h.parent.states()[0].id, h.parent.states()[1].id]
        hist = force_first(ch, hist, [h.id])
    elif kind == 'non-orthogonal-deep-pair':
        # two states below different children of one compound state, each at least two levels below it
        pairs = []
        for s0 in proper + [ch.root]:
            if s0.kind not in ('state', 'scxml') or len(s0.states()) < 2: continue
            a, b = s0.states()[0], s0.states()[1]
            da = [q for q in proper if C.is_descendant(q, a)]; db = [q for q in proper if C.is_descendant(q, b)]
            if da and db: pairs.append((rng.choice(da), rng.choice(db)))
        if not pairs: return None
        a, b = rng.choice(pairs)
        hist = force_first(ch, hist, [a.id, b.id] if rng.random() < 0.5 else [b.id, a.id])
    elif kind == 'duplicate-id':
        if len(proper) < 2: return None
        a, b = rng.sample(proper, 2)
        xml = C.render(ch, dm).replace(' id="%s"' % a.id, ' id="%s"' % b.id, 1); model = None
    elif kind in ('initial-element-with-event', 'initial-element-with-cond', 'initial-element-target-outside'):
        cs = [s for s in proper if s.kind == 'state' and s.states()]
        if not cs: return None
        s = rng.choice(cs); s.initial_attr = None; s.initial_elem = ([s.states()[0].id], [])
        if kind == 'initial-element-target-outside':
            out = [q for q in proper if not C.is_descendant(q, s) and q is not s]
            if not out: return None
            s.initial_elem = ([rng.choice(out).id], [])
        xml = C.render(ch, dm)
        if kind == 'initial-element-with-event': xml = xml.replace('<initial><transition target="%s"' % s.initial_elem[0][0], '<initial><transition event="e1" target="%s"' % s.initial_elem[0][0], 1)
        if kind == 'initial-element-with-cond': xml = xml.replace('<initial><transition target="%s"' % s.initial_elem[0][0], '<initial><transition cond="%s" target="%s"' % ("In('%s')" % s.id if dm != 'promela' else 'config[%s]' % s.id, s.initial_elem[0][0]), 1)
        if kind != 'initial-element-target-outside': model = None
    elif kind == 'unknown-datamodel':
        xml = C.render(ch, dm)
        xml = xml.replace('datamodel="%s"' % dm, 'datamodel="nonexistent"') if dm != 'null' else xml.replace('version="1.0"', 'version="1.0" datamodel="nonexistent"', 1)
        model = None
    if xml is None:
        ch.reindex(); xml = C.render(ch, dm)
    return kind, model, xml, hist


def issues_of(lines):
    out = []
    for l in lines:
        if l.startswith('VI '):
            p = l.split(' ', 2); sev = p[1]; rest = p[2] if len(p) > 2 else ''
            xp, _, msg = rest.partition(' :: ')
            out.append((sev, msg, xp))
    return out


def work(job):
    dbin, xbin, outdir, cases = job
    os.makedirs(outdir, exist_ok=True)
    jobs = []; meta = {}
    for cid, mode, seed, dm in cases:
        if mode == 'valid':
            ch, hist, xml, idless = valid_doc(seed, dm)
            jid = cid
            jobs.append((jid, T.job_text(jid, 'large', xml, hist[:3], flags=['validate', 'novars'])))
            meta[jid] = (cid, mode, ch, hist, xml, dm, 'valid', idless, 'large')
        else:
            f = faulty_doc(seed, dm)
            if f is None: continue
            kind, model, xml, hist = f
            for eng in ('large', 'fast'):
                jid = '%s:%s' % (cid, eng)
                jobs.append((jid, T.job_text(jid, eng, xml, hist[:4], flags=['validate', 'novars'])))
                meta[jid] = (cid, mode, model, hist, xml, dm, kind, 0, eng)
    raw = T.run_jobs(dbin, jobs)
    out = []; totrans = []
    for jid, (cid, mode, model, hist, xml, dm, kind, idless, eng) in meta.items():
        r = raw.get(jid, {'lines': [], 'crash': 'no result', 'timeout': False})
        iss = issues_of(r['lines'])
        fatal = [i for i in iss if i[0] == 'FATAL']
        rec = {'id': jid, 'mode': mode, 'kind': kind, 'dm': dm, 'bad': [], 'fatal': bool(fatal), 'idless': idless}
        rep = {'xml': xml, 'history': hist[:4], 'datamodel': dm, 'engine': eng, 'fault': kind, 'issues': [list(i) for i in iss][:12]}
        validated = any(l.startswith('VDONE') for l in r['lines'])
        if mode == 'valid':
            if r['crash'] or r['timeout']: rec['bad'].append(('valid-document:crash-or-hang:' + str(r['crash'])[:60], dict(rep, stderr=r.get('stderr'))))
            for sev, msg, xp in iss:
                if sev == 'FATAL':
                    rec['bad'].append(('false-fatal:' + re.sub(r"'[^']*'", "'X'", msg)[:70], rep)); break
            for sev, msg, xp in iss:
                if msg.startswith('Syntax error'):
                    rec['bad'].append(('false-syntax-error:%s:%s' % (dm, msg[:40]), rep)); break
        else:
            if not validated:
                rec['bad'].append(('validate-crash-or-hang:' + (str(r['crash'])[:80] if r['crash'] else 'hang'), dict(rep, stderr=r.get('stderr'))))
            elif not fatal:
                # validation let it through: it must be safe to run
                if r['timeout']: rec['bad'].append(('unsound:hang:' + kind, rep))
                elif r['crash']: rec['bad'].append(('unsound:crash:%s:%s' % (kind, str(r['crash'])[:60]), dict(rep, stderr=r.get('stderr'))))
                else:
                    thrown = [l for l in r['lines'] if l.startswith('THROW')]
                    if thrown: rec['bad'].append(('unsound:exception-at-initialisation:' + kind, dict(rep, thrown=thrown[0][:200])))
                    elif model is not None:
                        p = T.parse(r['lines'])
                        for s in p['steps']:
                            if s.get('conf') is not None and not s.get('noop') and s.get('ev') != '#completion':
                                why = C.is_legal_configuration(model, s['conf'])
                                if why:
                                    # an engine defect that C02 judges (shared history store) is not a statement about validation
                                    from vf.checks import c02
                                    if c02.key_for(model, 'illegal-configuration', s) == 'nested-history-shared-store':
                                        rec['engine_defect'] = 'nested-history-shared-store'; break
                                    rec['bad'].append(('unsound:illegal-configuration:' + kind, dict(rep, configuration=s['conf'], reason=why))); break
                if eng == 'large': totrans.append((cid, xml, kind, dm))
        out.append(rec)
    # transformers on documents without FATAL issues
    if totrans:
        tj = []
        for cid, xml, kind, dm in totrans:
            for t in ('c', 'pml'):
                tj.append(('%s_%s' % (cid, t), t, xml))
        res = xform.transform_batch(xbin, tj, outdir)
        for cid, xml, kind, dm in totrans:
            for t in ('c', 'pml'):
                r = res.get('%s_%s' % (cid, t))
                if r and r[0] in ('crash', 'timeout'):
                    out.append({'id': cid + ':' + t, 'mode': 'transform', 'kind': kind, 'dm': dm, 'fatal': False, 'idless': 0,
                                'bad': [('unsound:transformer-%s-%s:%s' % (t, r[0], kind), {'xml': xml, 'backend': t, 'summary': str(r[1])[:200], 'stderr': r[2] if len(r) > 2 else None})]})
        for f in os.listdir(outdir):
            try: os.unlink(os.path.join(outdir, f))
            except OSError: pass
    return out


def main(tier, replay):
    chk = Check('C19', tier)
    common.build('asan')
    dbin = common.harness('vdrv', 'asan'); xbin = common.harness('vxform', 'asan', transform=True)
    if replay:
        case = json.load(open(replay))['case']
        raw = T.run_jobs(dbin, [('r', T.job_text('r', case.get('engine', 'large'), case['xml'], case.get('history', []), flags=['validate', 'novars']))])
        print('\n'.join(l for l in raw['r']['lines'] if l[:2] in ('VI', 'VD', 'TH', 'MA'))[:3000]); print(raw['r']['crash']); sys.exit(0)
    outroot = common.scratch('c19')
    nv, nf = (400, 1500) if tier == 'quick' else (10000, 30000)
    base = chk.seed * 1000000 + 1919
    cases = [('v%d' % i, 'valid', base + i, ('lua', 'promela', 'null')[i % 3]) for i in range(nv)]
    cases += [('f%d' % i, 'faulty', base + 500000 + i, ('lua', 'promela', 'lua', 'null')[i % 4]) for i in range(nf)]
    jobs = [(dbin, xbin, os.path.join(outroot, 'w%d' % (i // 40)), cases[i:i + 40]) for i in range(0, len(cases), 40)]
    stats = collections.Counter(); reported = collections.Counter(); passed = collections.Counter()
    for out in common.pmap(work, jobs):
        for rec in out:
            chk.count(); stats[rec['mode']] += 1
            if rec['mode'] == 'valid':
                chk.nontrivial(rec['id']); stats['idless_states'] += rec['idless']
            elif rec['mode'] == 'faulty':
                (reported if rec['fatal'] else passed)[rec['kind']] += 1
                chk.nontrivial(rec['id'])
            seen = set()
            for key, rep in rec['bad']:
                if key in seen: continue
                seen.add(key); chk.report(key, rep, '%s %s' % (rec['id'], key))
            if not rec['bad'] and len(chk.samples) < 4 and rec['mode'] == 'faulty' and not rec['fatal']:
                chk.sample({'case': rec['id'], 'fault': rec['kind'], 'validation': 'no FATAL issue', 'then': 'ran without crash / exception / illegal configuration'})
    # robustness: validate() on XML mutants (crash/hang only)
    from vf.checks import c07
    nm = 1200 if tier == 'quick' else 60000
    mv = collections.Counter()
    mjobs = [(dbin, list(range(base * 7 + i, base * 7 + min(i + 40, nm)))) for i in range(0, nm, 40)]
    for out in common.pmap(c07.mutant_work, mjobs):
        for rec in out:
            chk.count(); mv[rec['v']] += 1
            if rec['v'] == 'bad': chk.report(rec['k'], rec['replay'], '%s %s' % (rec['id'], rec['k']))
    shutil.rmtree(outroot, ignore_errors=True)
    chk.add('documents', dict(stats)); chk.add('faults_reported_fatal', dict(reported)); chk.add('faults_not_reported_and_run', dict(passed)); chk.add('xml_mutants', dict(mv))
    chk.rule = ('valid-by-construction documents (incl. id-less atomic states/finals, multi-target deep initial attributes, real lua/promela expressions) must get no FATAL issue and no "Syntax error" warning; '
                'single-fault documents (18 fault kinds, the newer ones with a first transition that exercises the arrangement) that get no FATAL issue are run with histories on engines large and fast under ASan/UBSan with the legality monitor and through ChartToC/ChartToPromela; '
                'XML mutants are validated for robustness. distinct_nontrivial = documents validated')
    chk.assumptions = ['"valid" = valid by the generator\'s construction rules (written from the Recommendation)', 'a reported fault is counted, not judged; a missed fault only matters when it misbehaves']
    chk.min_distinct = 100
    chk.finish()


if __name__ == '__main__':
    common.main_wrapper(main)
