"""C17 - The Promela datamodel evaluates expressions with Promela's integer semantics.

Subject: DataModel::evalAsData / evalAsBool / assign / init / eval of a promela-datamodel interpreter (harness/vpml.cpp),
plus the protected PromelaDataModel::evaluateStmnt/evaluateDecl for ++/-- and declaration lists.
Oracle: vf/pml_ref.py (C int semantics on the expression tree; Python dict model of the variable store).

Every generated expression is printed twice (minimal / full parentheses); both texts must evaluate to the reference
value and evalAsBool must agree with value != 0. Error cases must be answered with an error event.

Classification of deviations (DESIGN 2.5, value properties):
  1. A fixed table of minimal witnesses (PROBES) is run first. A witness that deviates the way its hypothesis says
     switches the corresponding variant of the as-is model (pml_ref.AsIs) on; its finding key is computed by the same key
     function that names shrunk cases.
  2. A deviating case whose observations are exactly those predicted by the as-is model is attributed to the keys of the
     variants that fired while evaluating it.
  3. Any other deviating case is shrunk against the real code to a smallest unexplained sub-expression whose operands are
     replaced by constants; the key is the operator shape plus the kind of failure. Unknown key -> VIOLATION.
"""
import os, sys, json, re, random, hashlib, collections, time
from vf import common
from vf import pml_ref as P
from vf.common import Check, Inconclusive

PROP = 'C17'
WORKERS = 5
WATCHDOG_MS = 250       # CPU time per command; an evaluation normally needs well under 1 ms
# Confidence runs of the monitor itself (DESIGN 2.7): VERIF_C17_BINARY names a vpml binary into which a mutated copy of the
# promela datamodel sources was linked (its definitions interpose those of libuscxml.so; ASan then needs
# VERIF_C17_ASAN_EXTRA=:detect_odr_violation=0). Unset in normal use.
ASAN_EXTRA = os.environ.get('VERIF_C17_ASAN_EXTRA', '')
SLOW_ENV = {'ASAN_OPTIONS': common.ASAN_ENV['ASAN_OPTIONS'] + ASAN_EXTRA}
FAST_ENV = {'UBSAN_OPTIONS': 'halt_on_error=1:print_stacktrace=0:symbolize=0',
            'ASAN_OPTIONS': common.ASAN_ENV['ASAN_OPTIONS'] + ':symbolize=0' + ASAN_EXTRA}
MODE = {'ERR': 'error', 'CRASH': 'crash', 'HANG': 'hang', 'NONINT': 'non-integer-value', 'EXC': 'foreign-exception', 'V': 'value', 'OK': 'accepted',
        'B': 'value'}


def load_known_part(chk):
    """Findings of this property not yet merged into known_findings.txt (same line format)."""
    p = os.path.join(common.VERIF, 'known', PROP, 'known_findings.part')
    if not os.path.exists(p):
        return
    for ln in open(p):
        m = re.match(r'property=(\S+) key=(\S+)(?: witness=(\S+))? :: (.*)$', ln.strip())
        if m and m.group(1) == PROP:
            chk.known.by_prop[PROP].setdefault(m.group(2), (m.group(3), m.group(4)))


# ------------------------------------------------------------------------------------------------ harness I/O
def parse_answer(a):
    if a.startswith('V i '):
        s = a[4:]
        if re.match(r'^-?\d+$', s) and str(int(s)) == s:
            return ('V', int(s))
        return ('NONINT', s)
    if a.startswith('V '): return ('NONINT', a[2:])
    if a.startswith('J '): return ('NONINT', a[2:][:200])
    if a.startswith('B '): return ('B', int(a[2:]))
    if a == 'OK': return ('OK',)
    if a == 'SKIP': return ('SKIP',)
    if a.startswith('ERR'): return ('ERR', a[4:][:200])
    if a.startswith('CRASH'): return ('CRASH', a[6:])
    if a.startswith('HANG'): return ('HANG', a[5:])
    if a.startswith('EXC'): return ('EXC', a[4:][:200])
    return ('BAD', a[:200])


def run_cmds(binary, cmds, fast=True, timeout=900):
    """One harness process for a command list. Returns (outcomes aligned with cmds, {cmd index: stderr of crash/hang})."""
    for c in cmds:
        assert '\n' not in c
    inp = 'T\t%d\n' % WATCHDOG_MS + ''.join(c + '\n' for c in cmds)
    for attempt in range(8):
        rc, out, err, to = common.run_proc([binary], inp=inp, timeout=timeout, env=FAST_ENV if fast else SLOW_ENV)
        if rc == 127 and 'error while loading shared libraries' in (err or ''):
            time.sleep(8)      # the library is being relinked by a concurrent build of the same tree: transient
            continue
        break
    ans = [l[1:] for l in out.split('\n') if l.startswith('@')]
    if to or rc != 0 or len(ans) != len(cmds) + 2 or ans[0] != 'READY':
        raise Inconclusive('vpml harness: rc=%s timeout=%s answers=%d/%d first=%r stderr=%s' % (
            rc, to, len(ans), len(cmds) + 2, ans[:1], (common.sanitizer_summary(err) or err[-400:])))
    reports, pos = {}, 0
    for m in re.finditer(r'\n@@(CRASH|HANG)-AT (\d+)\n', err):
        reports[int(m.group(2)) - 1] = err[pos:m.start()]
        pos = m.end()
    reports['_stuck'] = len(re.findall(r'@@STUCK-RETRY-AT', err))
    outs = [parse_answer(a) for a in ans[2:]]
    for o in outs:
        if o[0] == 'BAD':
            raise Inconclusive('vpml harness answered %r' % (o[1],))
    return outs, reports


def setup(env, cmds):
    s = env.setup_commands()
    return s + cmds, len(s)


def check_setup(outs, n, what):
    for o in outs[:n]:
        if o[0] != 'OK':
            raise Inconclusive('environment set-up of %s was not accepted by the datamodel: %r' % (what, o))


def report_sig(reports, idx):
    r = reports.get(idx)
    if not r:
        return None
    s = common.sanitizer_summary(r)
    if s:
        return s
    fr = re.findall(r'\((_ZN6uscxml[\w]+)\+', r)
    return 'cpu-watchdog @ ' + ' < '.join(fr[:3]) if fr else r.strip()[-200:]


# ------------------------------------------------------------------------------------------------ judging
def matches(obs, pred):
    k = obs[0]
    if k == 'V':
        return ('V', obs[1]) in pred or ('ANYVALUE',) in pred
    if k == 'B':
        return any(p[0] == 'V' and int(p[1] != 0) == obs[1] for p in pred) or ('ANYVALUE',) in pred
    if k == 'SKIP':
        return True
    return (k,) in pred


def judge_value(case, obs, asis, env):
    """case: {'min','full','ref'}; obs: (omin, ofull, obool). -> ('ok',) | ('explained', variants) | ('unexplained',)"""
    omin, ofull, obool = obs
    ref = case['ref']
    if omin == ('V', ref) and ofull == ('V', ref) and obool == ('B', int(ref != 0)):
        return ('ok',)
    pmin, fmin = asis.outcomes(case['min'], env)
    pfull, ffull = asis.outcomes(case['full'], env)
    fired = fmin | ffull
    if fired and matches(omin, pmin) and matches(ofull, pfull) and matches(obool, pmin):
        return ('explained', sorted(fired))
    return ('unexplained',)


def leafy(t):
    return t[0] in ('c', 'k', 'v', 'f') or (t[0] == 'a' and t[2][0] == 'c')


def value_key(t, ref, obs, env):
    """Finding key of a (minimal) deviating value case from what was observed on its two printings and evalAsBool."""
    omin, ofull, obool = obs
    bad_min = omin != ('V', ref)
    bad_full = ofull != ('V', ref) and ofull[0] != 'SKIP'
    if not bad_min and not bad_full:
        return 'evalAsBool:%s:%s' % (P.skeleton(t), 'wrong-value' if obool[0] == 'B' else MODE.get(obool[0], obool[0]))
    o = omin if bad_min else ofull
    both = bad_min and (bad_full or ofull[0] == 'SKIP')
    suffix = '' if both else ('@min-parens' if bad_min else '@full-parens')
    mode = MODE.get(o[0], o[0])
    if o[0] == 'V':
        mode = 'wrong-value'
        if t[0] == 'b' and leafy(t[2]) and leafy(t[3]):
            try:
                if P.apply_bin(t[1], P.ref_eval(t[3], env), P.ref_eval(t[2], env)) == o[1]:
                    mode = 'operands-swapped'
            except (P.Reject, P.Fault):
                pass
    return 'expr:%s:%s%s' % (P.skeleton(t, full=not bad_min), mode, suffix)


def value_case(tree, ref, env=None):
    c = {'type': 'value', 'tree': P.to_list(tree), 'min': P.show(tree), 'full': P.show(tree, True), 'ref': ref}
    if env is not None:
        c['env'] = env.to_json()
    return c


def value_cmds(case, chained=True):
    p = '+' if chained else ''
    return ['E\t' + case['min'], p + 'E\t' + case['full'], p + 'B\t' + case['min']]


# ------------------------------------------------------------------------------------------------ probes (minimal witnesses)
def probe_env():
    e = P.Env()
    e.scalars = {'a': ['int', 7], 'b': ['int', 2]}
    e.arrays = {'arr': ['int', [1, 2, 3, 4]]}
    e.order = ['a', 'b', 'arr']
    return e


SWAP_WITNESS = {'-': (7, 2), '/': (7, 2), '%': (7, 4), '<<': (1, 3), '>>': (16, 2), '<': (1, 2), '<=': (1, 2), '>': (2, 1), '>=': (2, 1)}


def probe_table():
    c = lambda n: ('c', n)
    t = [('ne', 'value', ('b', '!=', c(3), c(4))),
         ('umin', 'value', ('u', '-', c(3))),
         ('orand', 'value', ('b', '||', c(1), ('b', '&&', c(0), c(0))))]
    for op in P.NONCOMM:
        x, y = SWAP_WITNESS[op]
        t.append(('swap:' + op, 'value', ('b', op, c(x), c(y))))
    t.append(('div0:/', 'error', {'fault': 'div-by-zero:/', 'cmd': 'E', 'text': '0 / 0'}))
    t.append(('div0:%', 'error', {'fault': 'div-by-zero:%', 'cmd': 'E', 'text': '0 % 0'}))
    t.append(('negidx:read', 'error', {'fault': 'index-negative:read', 'cmd': 'E', 'text': 'arr[0 - 1]'}))
    t.append(('negidx:write', 'error', {'fault': 'index-negative:write', 'cmd': 'A', 'text': 'arr[0 - 1]', 'rhs': '1'}))
    return t


def hypothesis_holds(variant, payload, obs, env):
    """Does the witness deviate the way the variant's hypothesis says?"""
    k = variant.split(':')[0]
    if k == 'ne': return obs[0][0] == 'ERR' and obs[1][0] == 'ERR'
    if k == 'umin': return obs[0][0] == 'CRASH' and obs[1][0] == 'CRASH'
    if k == 'orand': return obs[0] == ('V', 0) and obs[1] == ('V', 1)
    if k == 'swap':
        sw = P.apply_bin(payload[1], payload[3][1], payload[2][1])
        return obs[0] == ('V', sw) and obs[1] == ('V', sw) and sw != P.ref_eval(payload, env)
    if k == 'div0': return obs[0][0] == 'CRASH'
    if k == 'negidx': return obs[0][0] == 'HANG'
    return False


def error_cmds(case, chained=True):
    if case['cmd'] == 'A':
        return ['A\t%s\t%s' % (case['text'], case['rhs'])]
    return ['E\t' + case['text'], ('+' if chained else '') + 'B\t' + case['text']]


def fault_key(fault, obs):
    """obs: outcomes of the command(s) of an error case; the first that is not an error names the failure."""
    for o in obs:
        if o[0] not in ('ERR', 'SKIP'):
            return 'fault:%s:%s' % (fault, MODE.get(o[0], o[0]))
    return None


def run_probes(chk, binary):
    env = probe_env()
    table = probe_table()
    cmds = []
    spans = []
    for variant, kind, payload in table:
        if kind == 'value':
            c = value_cmds(value_case(payload, P.ref_eval(payload, env)), chained=False)
        else:
            c = error_cmds(payload, chained=False)
        spans.append((len(cmds), len(c)))
        cmds += c
    allc, n0 = setup(env, cmds)
    outs, reports = run_cmds(binary, allc, fast=False)
    check_setup(outs, n0, 'probe environment')
    active = {}
    for (variant, kind, payload), (off, ln) in zip(table, spans):
        obs = outs[n0 + off:n0 + off + ln]
        chk.count(ln)
        if kind == 'value':
            ref = P.ref_eval(payload, env)
            if obs[0] == ('V', ref) and obs[1] == ('V', ref) and obs[2] == ('B', int(ref != 0)):
                continue
            key = value_key(payload, ref, obs, env)
            case = value_case(payload, ref, env)
        else:
            key = fault_key(payload['fault'], obs)
            if key is None:
                continue
            case = dict(payload, type='error', env=env.to_json())
        sig = [report_sig(reports, n0 + off + i) for i in range(ln)]
        case['observed'] = [list(o) for o in obs]
        case['reports'] = [s for s in sig if s]
        chk.report(key, case, 'witness %s: expected %s, observed %s %s' % (
            case.get('min', case.get('text')), case.get('ref', 'an error'), [o[:2] for o in obs], ' '.join(s for s in sig if s)[:200]))
        if hypothesis_holds(variant, payload, obs, env):
            active[variant] = key
    return active


# ------------------------------------------------------------------------------------------------ bulk value cases
def bulk_job(job):
    rng = random.Random(job['seed'])
    env = P.random_env(rng)
    asis = P.AsIs(job['active'])
    if job.get('family'):
        lo, hi = job['family']
        cases = P.pair_family()[lo:hi]
    else:
        g = P.Gen(rng, env, job['maxdepth'])
        cases = [g.expression() for _ in range(job['n'])]
    vcases = [value_case(t, v) for t, v in cases]
    cmds = []
    for c in vcases:
        cmds += value_cmds(c)
    allc, n0 = setup(env, cmds)
    outs, reports = run_cmds(job['binary'], allc)
    check_setup(outs, n0, 'bulk job')
    res = {'stuck': reports['_stuck'], 'cases': len(vcases), 'evals': 0, 'ok': 0, 'explained': collections.Counter(), 'unexplained': [], 'nontrivial': set(),
           'ops': collections.Counter(), 'depth': collections.Counter(), 'samples': [], 'expl_samples': {}, 'selfcheck': 0, 'multi_explained': 0}
    for i, ((t, v), c) in enumerate(zip(cases, vcases)):
        obs = tuple(outs[n0 + 3 * i:n0 + 3 * i + 3])
        res['evals'] += sum(1 for o in obs if o[0] != 'SKIP')
        # monitor self-check: both printings re-parse (C grammar) to the tree that was evaluated
        if P.parse_c(c['min']) != t or P.parse_c(c['full']) != t:
            raise Inconclusive('printer/parser self-check failed for %r' % (c['min'],))
        res['selfcheck'] += 1
        ops = P.ops_of(t)
        for o in ops: res['ops'][o] += 1
        res['depth'][P.depth(t)] += 1
        if len(ops) >= 2:
            res['nontrivial'].add(int(hashlib.md5(c['min'].encode()).hexdigest()[:12], 16))
        j = judge_value(c, obs, asis, env)
        if j[0] == 'ok':
            res['ok'] += 1
            if len(res['samples']) < 2 and len(ops) >= 2 and i % 7 == 3:
                res['samples'].append({'min': c['min'], 'full': c['full'], 'value': v})
        elif j[0] == 'explained':
            keys = sorted(set(job['active'][x] for x in j[1]))
            if len(keys) > 1: res['multi_explained'] += 1
            for k in keys:
                res['explained'][k] += 1
                if k not in res['expl_samples']:
                    res['expl_samples'][k] = {'min': c['min'], 'ref': v, 'observed': [list(o[:2]) for o in obs]}
        else:
            c['env'] = env.to_json()
            c['observed'] = [list(o) for o in obs]
            c['size'] = P.size(t)
            if len(res['unexplained']) < 25:
                res['unexplained'].append(c)
            else:
                res['unexplained_more'] = res.get('unexplained_more', 0) + 1
    return res


def shrink_value(binary, case, asis):
    """Smallest unexplained sub-expression of a deviating value case, operands replaced by constants where the failure
    survives. Returns (key, minimal case) or (None, reason)."""
    env = P.Env.from_json(case['env'])
    tree = P.from_list(case['tree'])

    def evaluate(trees):
        vc = [value_case(t, P.ref_eval(t, env)) for t in trees]
        cmds = []
        for c in vc:
            cmds += value_cmds(c, chained=False)
        allc, n0 = setup(env, cmds)
        outs, reports = run_cmds(binary, allc)
        check_setup(outs, n0, 'shrink')
        r = []
        for i, c in enumerate(vc):
            obs = tuple(outs[n0 + 3 * i:n0 + 3 * i + 3])
            r.append((c, obs, judge_value(c, obs, asis, env)[0] == 'unexplained'))
        return r

    cands = sorted(set(P.subtrees(tree)), key=lambda t: (P.size(t), P.show(t)))
    res = evaluate(cands)
    bad = [(t, c, obs) for t, (c, obs, b) in zip(cands, res) if b]
    if not bad or not res[cands.index(tree)][2]:
        return None, 'deviation of %r (observed %r) did not reproduce when evaluated again (now %r)' % (case['min'], case.get('observed'), [list(o[:2]) for o in res[cands.index(tree)][1]])
    m, mc, mobs = bad[0]
    for _ in range(12):
        trials = []
        for path, sub in P.paths(m):
            if not path or sub[0] == 'c':
                continue
            v = P.ref_eval(sub, env)
            if v < 0:
                continue
            try:
                nt = P.replace_at(m, path, ('c', v))
                P.ref_eval(nt, env)
            except (P.Reject, P.Fault):
                continue
            trials.append(nt)
        if not trials:
            break
        rr = evaluate(trials)
        nxt = [(t, c, obs) for t, (c, obs, b) in zip(trials, rr) if b]
        if not nxt:
            break
        nxt.sort(key=lambda x: (P.size(x[0]), P.show(x[0])))
        m, mc, mobs = nxt[0]
    ref = P.ref_eval(m, env)
    key = value_key(m, ref, mobs, env)
    out = value_case(m, ref, env)
    out['observed'] = [list(o) for o in mobs]
    out['shrunk_from'] = case['min']
    return key, out


# ------------------------------------------------------------------------------------------------ error cases
def gen_error_cases(rng, env, n):
    g = P.Gen(rng, env, 3)
    out = []
    arrs = sorted(env.arrays)
    def zero():
        r = rng.random()
        if r < 0.4: return ('c', 0)
        v = rng.choice(sorted(env.scalars))
        if r < 0.7: return ('b', '-', ('v', v), ('v', v))
        return ('b', '*', ('c', 0), ('v', v))
    def index_expr(val):
        if val >= 0 and rng.random() < 0.5:
            return ('c', val)
        k = rng.randint(0, 6)
        return ('b', '-', ('c', k), ('c', k - val)) if k - val >= 0 else ('b', '+', ('c', val - k), ('c', k))
    while len(out) < n:
        r = rng.random()
        ctx = P.context_with_hole(g, rng, rng.choice([0, 0, 1, 1, 2, 3]))
        if r < 0.22:
            op = rng.choice(['/', '%'])
            num, _ = g.node(rng.randint(0, 1), ['+', '-', '*'], False)
            node = ('b', op, num, zero())
            fault = 'div-by-zero:' + op
            out.append({'type': 'error', 'fault': fault, 'cmd': 'E', 'text': P.show(P.fill_hole(ctx, node), rng.random() < 0.4), 'node': P.show(node)})
        elif r < 0.60:
            a = rng.choice(arrs)
            n_ = len(env.arrays[a][1])
            which = rng.choice(['negative', 'eq-size', 'eq-size', 'gt-size'])
            val = {'negative': -rng.choice([1, 1, 2, 5, 1000]), 'eq-size': n_, 'gt-size': n_ + rng.choice([1, 2, 10, 100000])}[which]
            node = ('a', a, index_expr(val))
            if rng.random() < 0.6:
                out.append({'type': 'error', 'fault': 'index-%s:read' % which, 'cmd': 'E', 'text': P.show(P.fill_hole(ctx, node), rng.random() < 0.4), 'node': P.show(node)})
            else:
                out.append({'type': 'error', 'fault': 'index-%s:write' % which, 'cmd': 'A', 'text': P.show(node), 'rhs': str(rng.randint(0, 9)), 'node': P.show(node)})
        elif r < 0.68:
            # left-to-right operand evaluation: both operands fault, with distinct out-of-range indices; the error must name the left one
            a, b2 = rng.choice(arrs), rng.choice(arrs)
            i1 = len(env.arrays[a][1]) + rng.randint(0, 3)
            i2 = len(env.arrays[b2][1]) + rng.randint(4, 9)
            if i1 == i2: i2 += 1
            if rng.random() < 0.5: i1, i2 = i2, i1
            op = rng.choice(P.BINOPS)
            node = ('b', op, ('a', a, ('c', i1)), ('a', b2, ('c', i2)))
            out.append({'type': 'error', 'fault': 'two-faults-order:' + op, 'cmd': 'E', 'text': P.show(node, rng.random() < 0.4), 'node': P.show(node),
                        'first_index': i1, 'second_index': i2})
        elif r < 0.82:
            k = rng.choice(['undeclared-array', 'undeclared-field', 'no-such-field', 'undeclared-in-arith', 'scalar-indexed', 'array-as-scalar',
                            'assign-undeclared', 'assign-undeclared-array'])
            u = rng.choice(['u', 'w', 'zz'])
            if k == 'undeclared-array': node = ('a', u, ('c', rng.randint(0, 2)))
            elif k == 'undeclared-field': node = ('f', u + '.x')
            elif k == 'no-such-field': node = ('f', rng.choice(sorted(env.structs)) + '.nope')
            elif k == 'undeclared-in-arith':
                node = ('b', rng.choice(['+', '-', '*', '<', '>=']), ('v', u), ('c', rng.randint(1, 5)))
                if rng.random() < 0.5: node = ('b', node[1], node[3], node[2])
            elif k == 'scalar-indexed': node = ('a', rng.choice(sorted(env.scalars)), ('c', 0))
            elif k == 'array-as-scalar': node = ('b', rng.choice(['+', '*', '<']), ('v', rng.choice(arrs)), ('c', 1))
            if k == 'assign-undeclared':
                out.append({'type': 'error', 'fault': k, 'cmd': 'A', 'text': u, 'rhs': '1', 'node': u})
            elif k == 'assign-undeclared-array':
                out.append({'type': 'error', 'fault': k, 'cmd': 'A', 'text': u + '[0]', 'rhs': '1', 'node': u + '[0]'})
            else:
                out.append({'type': 'error', 'fault': k, 'cmd': 'E', 'text': P.show(P.fill_hole(ctx, node), rng.random() < 0.4), 'node': P.show(node)})
        else:
            t, _ = g.expression()
            muts = P.syntax_mutants(rng, P.show(t, rng.random() < 0.3))
            if muts:
                kind, s = rng.choice(muts)
                out.append({'type': 'error', 'fault': 'syntax:' + kind, 'cmd': 'E', 'text': s, 'node': s})
    return out


def error_job(job):
    rng = random.Random(job['seed'])
    env = P.random_env(rng)
    asis = P.AsIs(job['active'])
    cases = gen_error_cases(rng, env, job['n'])
    cmds, spans = [], []
    for c in cases:
        cc = error_cmds(c)
        spans.append((len(cmds), len(cc)))
        cmds += cc
    allc, n0 = setup(env, cmds)
    outs, reports = run_cmds(job['binary'], allc)
    check_setup(outs, n0, 'error job')
    res = {'stuck': reports['_stuck'], 'cases': len(cases), 'evals': 0, 'ok': 0, 'explained': collections.Counter(), 'unexplained': [], 'kinds': collections.Counter(),
           'expl_samples': {}, 'samples': []}
    for c, (off, ln) in zip(cases, spans):
        obs = outs[n0 + off:n0 + off + ln]
        res['evals'] += sum(1 for o in obs if o[0] != 'SKIP')
        res['kinds'][c['fault'].split(':')[0] + (':' + c['fault'].split(':')[1] if c['fault'].startswith(('index', 'div')) else '')] += 1
        if all(o[0] in ('ERR', 'SKIP') for o in obs) and obs[0][0] == 'ERR':
            if 'first_index' in c:
                m = re.search(r'Index (-?\d+) in array', obs[0][1])
                if m and int(m.group(1)) == c['second_index'] and not (c['fault'].endswith('!=') and 'ne' in job['active']):
                    c['env'] = env.to_json(); c['observed'] = [list(o) for o in obs]; c['order'] = True
                    res['unexplained'].append(c)
                    continue
                res['order_decided'] = res.get('order_decided', 0) + (1 if m else 0)
            res['ok'] += 1
            if len(res['samples']) < 1:
                res['samples'].append({'text': c['text'], 'fault': c['fault'], 'observed': obs[0][1][:80]})
            continue
        pred, fired = asis.outcomes(c['text'], env, write=(c['cmd'] == 'A'))
        if fired and all(matches(o, pred) for o in obs):
            for k in sorted(set(job['active'][x] for x in fired)):
                res['explained'][k] += 1
                res['expl_samples'].setdefault(k, {'text': c['text'], 'fault': c['fault'], 'observed': [list(o[:2]) for o in obs]})
        else:
            c['env'] = env.to_json()
            c['observed'] = [list(o) for o in obs]
            res['unexplained'].append(c)
    return res


def classify_error(binary, case, asis):
    """Key of an unexplained error case: the faulting node evaluated on its own decides."""
    env = P.Env.from_json(case['env'])
    iso = dict(case, text=case['node'])
    cmds = error_cmds(case, chained=False) + error_cmds(iso, chained=False)
    allc, n0 = setup(env, cmds)
    outs, reports = run_cmds(binary, allc)
    check_setup(outs, n0, 'error classification')
    k = len(error_cmds(case))
    whole, alone = outs[n0:n0 + k], outs[n0 + k:]
    kw = fault_key(case['fault'], whole)
    if kw is None and case.get('order'):
        m = re.search(r'Index (-?\d+) in array', whole[0][1])
        if m and int(m.group(1)) == case['second_index']:
            return 'order:%s:right-operand-evaluated-first' % case['fault'].split(':', 1)[1], dict(case, observed=[list(o) for o in whole])
    if kw is None:
        return None, 'error case %r did not reproduce' % case['text']
    ka = fault_key(case['fault'], alone)
    sig = [s for s in (report_sig(reports, n0 + i) for i in range(len(cmds))) if s]
    out = dict(case, observed=[list(o) for o in whole], observed_node_alone=[list(o) for o in alone], reports=sig)
    pa, fa = asis.outcomes(case['node'], env, write=(case['cmd'] == 'A'))
    alone_explained = bool(fa) and all(matches(o, pa) for o in alone)
    if ka is not None and not alone_explained:
        out['text'] = case['node']
        out['observed'] = out['observed_node_alone']
        return ka, out
    return kw + ':only-in-context', out


# ------------------------------------------------------------------------------------------------ statement sequences
FIELD_POOL = ['x', 'y', 'z', 'n.z', 'type', 'vis']


class Invalid(Exception):
    pass


def locations(env):
    """(text, model value, class) of everything that can be read back."""
    out = []
    for n in env.order:
        if n in env.scalars:
            out.append((n, env.scalars[n][1], 'scalar'))
        elif n in env.arrays:
            for i, v in enumerate(env.arrays[n][1]):
                out.append(('%s[%d]' % (n, i), v, 'array-element'))
        else:
            for p, v in sorted(env.structs[n].items()):
                out.append(('%s.%s' % (n, p), v, 'field:' + p if p in ('type', 'vis') else 'field'))
    return out


def sim_step(env, st):
    """Apply one structured step to the model; returns {'cmd','api','form','target','rhs','model'}. Raises Invalid when the
    step is not applicable to this store (used while shrinking)."""
    def val(tree, typ):
        try:
            v = P.ref_eval(P.from_list(tree), env)
        except (P.Reject, P.Fault):
            raise Invalid()
        lo, hi = P.TYPE_RANGE[typ]
        if not lo <= v <= hi:
            raise Invalid()
        return v
    def txt(tree, full):
        return P.show(P.from_list(tree), full)
    def cur(kind, name, sub):
        try:
            if kind == 'scalar': return env.scalars[name][0], env.scalars[name][1]
            if kind == 'elem': return env.arrays[name][0], env.arrays[name][1][sub]
            if name not in env.structs: raise Invalid()
            return 'int', env.structs[name].get(sub)
        except (KeyError, IndexError):
            raise Invalid()
    def put(kind, name, sub, v):
        if kind == 'scalar': env.scalars[name][1] = v
        elif kind == 'elem': env.arrays[name][1][sub] = v
        else: env.structs[name][sub] = v
    op = st['op']
    r = {'api': st.get('api', 'S'), 'rhs': [], 'kind': 'decl' if op.startswith('decl') else {'scalar': 'scalar', 'elem': 'array-element', 'field': 'field'}[st['kind']]}
    if op.startswith('decl') and env.declared(st['name']):
        raise Invalid()
    if op == 'decl-scalar':
        n, typ = st['name'], st['typ']
        if st['tree'] is None:
            v = 0
            r.update(cmd='L\t%s %s' % (typ, n), form='decl-scalar-default')
        else:
            v = val(st['tree'], typ)
            t = txt(st['tree'], st['full'])
            r['rhs'] = [t]
            if st['api'] == 'D': r.update(cmd='D\t%s\t%s\t%s' % (typ, n, t), form='decl-scalar')
            else: r.update(cmd='L\t%s %s = %s' % (typ, n, t), form='decl-scalar-init')
        env.scalars[n] = [typ, v]; env.order.append(n); r['target'] = n
    elif op == 'decl-array':
        n = st['name']
        env.arrays[n] = [st['typ'], [0] * st['k']]; env.order.append(n)
        r.update(cmd='L\t%s %s[%s]' % (st['typ'], n, st['sz']), form='decl-array', target=n, api='L')
    elif op == 'decl-struct':
        n = st['name']
        env.structs[n] = {}; env.order.append(n)
        r.update(cmd='D\tint\t%s\t0' % n, form='decl-struct-base', target=n, api='D')
    elif op in ('incr', 'decr'):
        typ, c = cur(st['kind'], st['name'], st['sub'])
        if c is None: raise Invalid()
        v = c + (1 if op == 'incr' else -1)
        lo, hi = P.TYPE_RANGE[typ]
        if not lo <= v <= hi: raise Invalid()
        put(st['kind'], st['name'], st['sub'], v)
        r.update(cmd='S\t%s%s' % (st['loc'], '++' if op == 'incr' else '--'), form=('increment-' if op == 'incr' else 'decrement-') + st['kind'], target=st['loc'], api='S')
    elif op == 'assign':
        typ, _ = cur(st['kind'], st['name'], st['sub'])
        v = val(st['tree'], typ)
        t = txt(st['tree'], st['full'])
        r['rhs'] = [t]
        form = {'scalar': 'assign-scalar', 'elem': 'assign-array-element', 'field': 'assign-field'}[st['kind']]
        if st['api'] == 'A': cmd = 'A\t%s\t%s' % (st['loc'], t)
        else: cmd = '%s\t%s = %s' % (st['api'], st['loc'], t)
        put(st['kind'], st['name'], st['sub'], v)
        r['mid'] = v
        if st.get('extra'):
            x = st['extra']
            typ2, _ = cur('scalar', x['name'], None)
            v2 = val(x['tree'], typ2)
            t2 = txt(x['tree'], st['full'])
            cmd += '; %s = %s' % (x['name'], t2)
            r['rhs'].append(t2)
            put('scalar', x['name'], None, v2)
            form = 'statement-list'
        r.update(cmd=cmd, form=form, target=st['loc'])
    else:
        raise Invalid()
    r['model'] = locations(env)
    return r


def simulate(steps):
    env = P.Env()
    return [sim_step(env, st) for st in steps]


def gen_rhs(g, rng, typ, pal):
    lo, hi = P.TYPE_RANGE[typ]
    for _ in range(8):
        if rng.random() < 0.25:
            c = g.const()
            t, v = ('c', c), c
        else:
            t, v = g.node(rng.randint(0, 3), pal, root=rng.random() < 0.8)
        if lo <= v <= hi:
            return P.to_list(t)
    return ['c', rng.randint(0, 1)]


def gen_sequence(rng):
    """Structured steps (see sim_step) over <= 4 names: declarations first, then assignments / ++ / -- / statement lists."""
    env = P.Env()
    steps = []
    names = ['p', 'q', 'r', 't']
    rng.shuffle(names)
    g = P.Gen(rng, env, 3)
    pal = g.palette()
    fields = rng.sample(FIELD_POOL[:4], 2) + (rng.sample(FIELD_POOL[4:], 1) if rng.random() < 0.25 else [])
    for si in range(rng.randint(5, 11)):
        undeclared = [n for n in names if not env.declared(n)]
        full = rng.random() < 0.3
        st = None
        if undeclared and (si < 2 or rng.random() < 0.2):
            n = undeclared[0]
            r = rng.random()
            if r < 0.55:
                api = 'D' if r < 0.30 else 'L'
                typ = rng.choice(['int', 'int', 'byte', 'bool'] + (['short'] if api == 'L' else []))
                tree = gen_rhs(g, rng, typ, pal) if (api == 'D' or rng.random() < 0.5) else None
                st = {'op': 'decl-scalar', 'api': api, 'typ': typ, 'name': n, 'tree': tree, 'full': full}
            elif r < 0.80:
                k = rng.randint(1, 4)
                sz = str(k) if rng.random() < 0.6 else rng.choice(['%d + %d' % (k - 1, 1), '%d * 1' % k, '(%d)' % k])
                st = {'op': 'decl-array', 'typ': rng.choice(['int', 'byte']), 'name': n, 'k': k, 'sz': sz}
            else:
                st = {'op': 'decl-struct', 'name': n}
        else:
            targets = []
            for n in env.order:
                if n in env.scalars: targets.append(('scalar', n, None))
                elif n in env.arrays: targets += [('elem', n, i) for i in range(len(env.arrays[n][1]))]
                else: targets += [('field', n, f) for f in fields]
            if not targets:
                continue
            kind, n, sub = rng.choice(targets)
            typ = env.scalars[n][0] if kind == 'scalar' else env.arrays[n][0] if kind == 'elem' else 'int'
            if kind == 'scalar': loc = n
            elif kind == 'elem':
                k = rng.randint(0, sub)
                loc = '%s[%d + %d]' % (n, k, sub - k) if (rng.random() < 0.3 and sub >= 1) else '%s[%d]' % (n, sub)
            else: loc = '%s.%s' % (n, sub)
            r = rng.random()
            if r < 0.34 and kind != 'field':
                st = {'op': 'incr' if r < 0.18 else 'decr', 'kind': kind, 'name': n, 'sub': sub, 'loc': loc}
            else:
                st = {'op': 'assign', 'api': rng.choice(['A', 'A', 'X', 'S']), 'kind': kind, 'name': n, 'sub': sub, 'loc': loc,
                      'tree': gen_rhs(g, rng, typ, pal), 'full': full, 'extra': None}
                sc = [m for m in env.order if m in env.scalars]
                if st['api'] == 'S' and sc and rng.random() < 0.4:
                    n2 = rng.choice(sc)
                    st['extra'] = {'name': n2, 'tree': gen_rhs(g, rng, env.scalars[n2][0], pal)}
        try:
            sim_step(env, st)      # advances env (the generator's trees are evaluated against it)
            steps.append(st)
        except Invalid:
            # e.g. ++ beyond the type range, or the second assignment of a list leaves the range after the first: skip
            # (env may be partially advanced only for statement lists whose first part was applied; rebuild)
            env2 = P.Env()
            for s in steps: sim_step(env2, s)
            env.scalars, env.arrays, env.structs, env.order = env2.scalars, env2.arrays, env2.structs, env2.order
    return steps


def seq_cmds(sim):
    cmds = ['R']
    idx = []
    for s in sim:
        idx.append(len(cmds))
        cmds.append(s['cmd'])
        for loc, v, cls in s['model']:
            cmds.append('E\t' + loc)
    return cmds, idx


def env_of_locations(locs):
    env = P.Env()
    for loc, v, cls in locs:
        m = re.match(r'(\w+)\[(\d+)\]$', loc)
        if m:
            env.arrays.setdefault(m.group(1), ['int', []])[1].append(v)
        elif '.' in loc:
            b, _, p = loc.partition('.')
            env.structs.setdefault(b, {})[p] = v
        else:
            env.scalars[loc] = ['int', v]
    return env


def judge_sequence(sim, outs, idx, active):
    """First divergence of a sequence: None | (step index, key, variants that explain it or None, detail)."""
    asis = P.AsIs(active)
    before = []
    for si, (s, at) in enumerate(zip(sim, idx)):
        o = outs[at]
        model = s['model']
        rb = outs[at + 1:at + 1 + len(model)]
        env = env_of_locations(before)

        tgt = re.sub(r'\[(\d+) \+ (\d+)\]', lambda m: '[%d]' % (int(m.group(1)) + int(m.group(2))), s['target'])
        # which text was assigned to which location by this step
        written = {}
        if s['rhs']:
            written[tgt] = s['rhs'][0]
            m2 = re.search(r'; (\w+) = ', s['cmd'])
            if len(s['rhs']) > 1 and m2:
                written[m2.group(1)] = s['rhs'][1]

        # as-is prediction for the locations this step writes; the second assignment of a list sees the store as the code
        # under test left it after the first one
        pred = {}
        if s['rhs']:
            p1, f1 = asis.outcomes(s['rhs'][0], env)
            pred[tgt] = (p1, f1)
            if len(s['rhs']) > 1:
                m2 = re.search(r'; (\w+) = ', s['cmd'])
                v1 = [x[1] for x in p1 if x[0] == 'V']
                if m2 and len(v1) == 1:
                    mid = [(l, v1[0] if l == tgt else v, c) for l, v, c in before]
                    if tgt not in [l for l, _, _ in before]:
                        mid.append((tgt, v1[0], 'field'))
                    p2, f2 = asis.outcomes(s['rhs'][1], env_of_locations(mid))
                    pred[m2.group(1)] = (p2, f1 | f2)
                elif m2 and f1:
                    # the first assignment already left the defined behaviour of the as-is model: nothing can be predicted
                    pred[m2.group(1)] = ({('ANYVALUE',), ('CRASH',), ('ERR',)}, f1)
        if o[0] != 'OK':
            cands = list(pred.values())
            m = re.match(r'\w+\[(.*)\]$', s['target'])
            if m:
                cands.append(asis.outcomes(m.group(1), env))
            fired = set()
            for pset, f in cands:
                if f and (o[0],) in pset:
                    fired |= f
            return si, 'stmt:%s:%s:%s' % (s['api'], s['form'], MODE.get(o[0], o[0])), sorted(fired) or None, {'answer': list(o)}
        dev = [(loc, v, cls, ob) for (loc, v, cls), ob in zip(model, rb) if ob != ('V', v)]
        if dev:
            fired = set()
            if all(loc in pred and ob[0] == 'V' and matches(ob, pred[loc][0]) and pred[loc][1] for loc, v, cls, ob in dev):
                for loc, v, cls, ob in dev:
                    fired |= pred[loc][1]
            others = [d for d in dev if d[0] not in written]
            loc, v, cls, ob = others[0] if others else dev[0]
            how = 'differs' if ob[0] == 'V' else MODE.get(ob[0], ob[0])
            if others:
                key = 'stmt:write-%s:readback-%s:other-%s' % (s['kind'], how, cls)
            else:
                key = 'stmt:%s:%s:readback-%s:target' % (s['api'], s['form'], how)
            return si, key, sorted(fired) or None, {'location': loc, 'expected': v, 'observed': list(ob)}
        before = model
    return None


def seq_job(job):
    rng = random.Random(job['seed'])
    seqs = [gen_sequence(rng) for _ in range(job['n'])]
    seqs = [s for s in seqs if s]
    sims = [simulate(s) for s in seqs]
    cmds, spans = [], []
    for sm in sims:
        c, idx = seq_cmds(sm)
        spans.append((len(cmds), idx, len(c)))
        cmds += c
    outs, reports = run_cmds(job['binary'], cmds)
    res = {'stuck': reports['_stuck'], 'cases': len(seqs), 'evals': 0, 'ok': 0, 'explained': collections.Counter(), 'unexplained': [], 'steps': 0, 'forms': collections.Counter(),
           'expl_samples': {}, 'samples': []}
    for st, sm, (off, idx, n) in zip(seqs, sims, spans):
        o = outs[off:off + n]
        res['evals'] += n - 1
        j = judge_sequence(sm, o, idx, job['active'])
        upto = len(sm) if j is None else j[0] + 1
        res['steps'] += upto
        for s in sm[:upto]:
            res['forms'][s['api'] + ':' + s['form']] += 1
        if j is None:
            res['ok'] += 1
            if len(res['samples']) < 1:
                res['samples'].append({'statements': [s['cmd'].replace('\t', ' ') for s in sm], 'final_store': [(l, v) for l, v, _ in sm[-1]['model']]})
            continue
        si, key, ex, detail = j
        if ex:
            for k in sorted(set(job['active'][x] for x in ex)):
                res['explained'][k] += 1
                res['expl_samples'].setdefault(k, {'statement': sm[si]['cmd'].replace('\t', ' '), 'detail': detail})
        else:
            res['unexplained'].append({'type': 'seq', 'key': key, 'steps': st[:si + 1], 'detail': detail, 'report': report_sig(reports, off + idx[si])})
    return res


def shrink_sequence(binary, case, active):
    """Delta-debugging over the statements before the diverging one: a statement is dropped when the rest is still a valid
    sequence for the model and the same key is still observed at the last statement."""
    steps = list(case['steps'])
    key = case['key']

    def still(st):
        try:
            sm = simulate(st)
        except Invalid:
            return None
        c, idx = seq_cmds(sm)
        outs, reports = run_cmds(binary, c)
        j = judge_sequence(sm, outs, idx, active)
        if j is not None and j[1] == key and j[0] == len(st) - 1 and not j[2]:
            return j[3], report_sig(reports, idx[-1]), sm
        return None

    got = still(steps)
    if got is None:
        return None, 'sequence deviation %s did not reproduce' % key

    def drop_pass():
        nonlocal steps, got
        i = len(steps) - 2
        while i >= 0:
            trial = steps[:i] + steps[i + 1:]
            g2 = still(trial)
            if g2 is not None:
                steps, got = trial, g2
            i -= 1

    def const_pass():
        nonlocal steps, got
        for i in range(len(steps)):
            for slot in ('tree', 'extra'):
                st = steps[i]
                tree = st.get('tree') if slot == 'tree' else (st.get('extra') or {}).get('tree')
                if not tree or tree[0] == 'c':
                    continue
                env = P.Env()
                try:
                    for s0 in steps[:i]:
                        sim_step(env, s0)
                    if slot == 'extra':
                        sim_step(env, dict(st, extra=None))
                    v = P.ref_eval(P.from_list(tree), env)
                except (Invalid, P.Reject, P.Fault):
                    continue
                nt = ['c', v] if v >= 0 else ['b', '-', ['c', 0], ['c', -v]]
                st2 = dict(st, tree=nt) if slot == 'tree' else dict(st, extra=dict(st['extra'], tree=nt))
                trial = steps[:i] + [st2] + steps[i + 1:]
                g2 = still(trial)
                if g2 is not None:
                    steps, got = trial, g2

    def extra_pass():
        nonlocal steps, got
        for i in range(len(steps)):
            if steps[i].get('extra'):
                trial = steps[:i] + [dict(steps[i], extra=None)] + steps[i + 1:]
                g2 = still(trial)
                if g2 is not None:
                    steps, got = trial, g2

    drop_pass()
    extra_pass()
    const_pass()
    drop_pass()
    return key, dict(case, steps=steps, detail=got[0], report=got[1], statements=[s['cmd'].replace('\t', ' ') for s in got[2]])


# ------------------------------------------------------------------------------------------------ special probes
def special_probes(chk, binary):
    """<data id="bootarr" type="int[3]"/> (no content) in the harness document itself, and the same through DataModel::init
    on a fresh datamodel: reading an element of the declared array must give a value (Promela: 0) or an error, not kill the
    process."""
    cmds = ['E\tbootarr[1]', 'E\tbootarr[0]', 'R', 'D\tint[3]\tq\t', 'E\tq[1]', 'E\tq[2] + 1']
    outs, reports = run_cmds(binary, cmds, fast=False)
    chk.count(4)
    fatal = ('CRASH', 'HANG', 'EXC', 'BAD')
    bad = [(c, o, report_sig(reports, i)) for i, (c, o) in enumerate(zip(cmds, outs)) if o[0] in fatal]
    if bad:
        c, o, sig = bad[0]
        key = 'decl:data-array-without-content:%s:%s' % ('element-read' if c.startswith('E') else 'init', MODE[o[0]])
        chk.report(key, {'type': 'special', 'name': 'data-array-without-content', 'cmds': cmds, 'observed': [list(x) for x in outs], 'report': sig},
                   '%s -> %s %s' % (c.replace('\t', ' '), o[:2], sig or ''), n=len(bad))
    return [list(o[:2]) for o in outs]


# ------------------------------------------------------------------------------------------------ replay
def replay_case(binary, case):
    """Re-run one recorded case against the reference only. Returns (still_fails, text)."""
    typ = case.get('type')
    if typ == 'value':
        env = P.Env.from_json(case['env'])
        tree = P.from_list(case['tree'])
        ref = P.ref_eval(tree, env)
        c = value_case(tree, ref)
        allc, n0 = setup(env, value_cmds(c, chained=False))
        outs, reports = run_cmds(binary, allc, fast=False)
        check_setup(outs, n0, 'replay')
        obs = outs[n0:]
        bad = not (obs[0] == ('V', ref) and obs[1] == ('V', ref) and obs[2] == ('B', int(ref != 0)))
        return bad, 'min %r full %r reference %d observed %r %s' % (c['min'], c['full'], ref, obs, [report_sig(reports, n0 + i) for i in range(3)])
    if typ == 'error':
        env = P.Env.from_json(case['env'])
        allc, n0 = setup(env, error_cmds(case, chained=False))
        outs, reports = run_cmds(binary, allc, fast=False)
        check_setup(outs, n0, 'replay')
        obs = outs[n0:]
        bad = fault_key(case['fault'], obs) is not None
        if not bad and 'first_index' in case:
            m = re.search(r'Index (-?\d+) in array', obs[0][1])
            bad = bool(m) and int(m.group(1)) == case['second_index']
        return bad, '%s %r expected an error, observed %r %s' % (case['cmd'], case['text'], obs, [report_sig(reports, n0 + i) for i in range(len(obs))])
    if typ == 'seq':
        sm = simulate(case['steps'])
        c, idx = seq_cmds(sm)
        outs, reports = run_cmds(binary, c, fast=False)
        j = judge_sequence(sm, outs, idx, {})
        return j is not None, 'statements %r -> %r' % ([s['cmd'].replace('\t', ' ') for s in sm], j)
    if typ == 'special':
        outs, reports = run_cmds(binary, case['cmds'], fast=False)
        bad = any(o[0] in ('CRASH', 'HANG', 'EXC', 'BAD') for o in outs)
        return bad, '%r -> %r' % ([c.replace('\t', ' ') for c in case['cmds']], outs)
    raise Inconclusive('unknown replay case type %r' % typ)


def stale_findings(chk, binary):
    """Listed findings whose committed witness no longer fails (informational)."""
    stale = []
    for key, (wit, text) in sorted(chk.known.by_prop.get(PROP, {}).items()):
        if not wit:
            continue
        p = os.path.join(common.VERIF, wit)
        if not os.path.exists(p):
            continue
        try:
            bad, _ = replay_case(binary, json.load(open(p))['case'])
        except Inconclusive:
            continue
        chk.count(1)
        if not bad:
            stale.append(key)
            print('STALE-FINDING: property=%s %s: witness %s no longer fails' % (PROP, key, wit))
    return stale


# ------------------------------------------------------------------------------------------------ main
def run_job(job):
    return {'bulk': bulk_job, 'error': error_job, 'seq': seq_job}[job['type']](job)


def main(tier, replay):
    chk = Check(PROP, tier)
    load_known_part(chk)
    thorough = tier != 'quick'
    maxdepth = 7 if thorough else 5
    chk.rule = ('value cases: expression trees over + - * / %% << >> < <= > >= == != && || ! unary-minus, constants, true/false, int/byte/bool '
                'variables, array elements (constant or computed index) and fields, depth <= %d, each evaluated by evalAsData in minimal and in '
                'full parenthesisation and by evalAsBool, against C-int reference evaluation; plus the deterministic family of every ordered pair '
                'of binary operators in both nestings and every unary/binary combination over 10 constant triples. error cases: ill-formed '
                'texts, /0, %%0, indices negative/=size/>size (read and write), undeclared or ill-typed names: an error event is required. '
                'statement sequences: declarations, assign/eval/evaluateStmnt assignments, ++/--, statement lists over <= 4 names against a '
                'dict model, every location read back after every statement. distinct_nontrivial counts distinct expression texts with >= 2 '
                'different operators that were evaluated, plus distinct error-case texts and statement sequences.') % maxdepth
    chk.assumptions = [
        'reference = C int semantics as Spin gives Promela expressions; sub-expressions undefined in C (overflow, shift count <0 or >=31, '
        'left shift of a negative value) are never generated; >> of a negative value is an arithmetic shift; values assigned stay inside the declared type (no byte/bool truncation is demanded)',
        'no short-circuit is demanded or forbidden: value cases are fault-free in every sub-expression, injected faults never sit below the '
        'right operand of && / ||',
        'a bare undeclared name (reads as false by design, W3C test 277) and ++/-- through DataModel::eval (answered "not implemented") are not judged; '
        '++/-- and declaration lists are driven through the protected PromelaDataModel::evaluateStmnt/evaluateDecl',
        'struct fields are the compound members the datamodel creates on assignment to <declared name>.<field>; typedef is not implemented '
        '(answered with an error) and therefore not generated',
        'ASan+UBSan build: an integer division by zero / SEGV is observed as a sanitizer report that ends the evaluating process',
    ]
    common.build('asan')
    binary = os.environ.get('VERIF_C17_BINARY') or common.harness('vpml', 'asan')
    if replay:
        bad, text = replay_case(binary, json.load(open(replay))['case'])
        print(('STILL FAILS: ' if bad else 'passes now: ') + text)
        sys.exit(1 if bad else 0)

    if thorough:
        outs, _ = run_cmds(binary, ['R', 'D\tint\ta\t7', 'Z', 'E\ta + 1'])
        if outs[-1] != ('V', 8):
            raise Inconclusive('supervisor self-test (stuck child is killed and its commands re-run) failed: %r' % (outs,))
        chk.add('harness_stuck_child_guard_selftest', 'ok')
    active = run_probes(chk, binary)
    chk.add('active_variants', ' '.join(sorted(active)) or '-')
    chk.add('special_data_array_without_content', json.dumps(special_probes(chk, binary)))

    fam = P.pair_family()
    jobs = []
    seed0 = chk.rng.randrange(1 << 30)
    step = 1100
    for lo in range(0, len(fam), step):
        jobs.append({'type': 'bulk', 'binary': binary, 'seed': seed0 + len(jobs), 'family': (lo, lo + step), 'active': active, 'maxdepth': maxdepth})
    nexpr, per = (300000, 1000) if thorough else (40000, 800)
    for _ in range(nexpr // per):
        jobs.append({'type': 'bulk', 'binary': binary, 'seed': seed0 + len(jobs), 'n': per, 'active': active, 'maxdepth': maxdepth})
    nerr, per = (5000, 100) if thorough else (1200, 60)
    for _ in range(nerr // per):
        jobs.append({'type': 'error', 'binary': binary, 'seed': seed0 + len(jobs), 'n': per, 'active': active})
    nseq, per = (8000, 100) if thorough else (2000, 50)
    for _ in range(nseq // per):
        jobs.append({'type': 'seq', 'binary': binary, 'seed': seed0 + len(jobs), 'n': per, 'active': active})
    chk.rng.shuffle(jobs)
    results = common.pmap(run_job, jobs, workers=WORKERS)

    tot = collections.Counter()
    explained = collections.Counter()
    expl_samples = {}
    unexplained = {'bulk': [], 'error': [], 'seq': []}
    more = 0
    ops, depths, kinds, forms = collections.Counter(), collections.Counter(), collections.Counter(), collections.Counter()
    nontrivial = set()
    for job, r in zip(jobs, results):
        t = job['type']
        tot[t + '_cases'] += r['cases']; tot[t + '_ok'] += r['ok']; tot[t + '_evals'] += r['evals']
        chk.count(r['evals'])
        for k, n in r['explained'].items():
            explained[k] += n
            expl_samples.setdefault(k, r['expl_samples'].get(k))
        unexplained[t] += r['unexplained']
        more += r.get('unexplained_more', 0)
        tot['stuck'] += r.get('stuck', 0)
        for s in r['samples']:
            if sum(1 for x in chk.samples if x.get('kind') == t) < 2:
                chk.sample(dict(s, kind=t), limit=8)
        if t == 'bulk':
            ops.update(r['ops']); depths.update(r['depth']); nontrivial |= r['nontrivial']
            tot['selfcheck'] += r['selfcheck']; tot['multi'] += r['multi_explained']
        elif t == 'error':
            kinds.update(r['kinds']); tot['order_decided'] += r.get('order_decided', 0)
        else:
            forms.update(r['forms']); tot['seq_steps'] += r['steps']
    for h in nontrivial:
        chk.nontrivial(h)
    chk.add('value_cases', tot['bulk_cases']); chk.add('value_cases_conforming', tot['bulk_ok'])
    chk.add('value_cases_distinct_ge2_operators', len(nontrivial))
    chk.add('pair_family_cases', len(fam))
    chk.add('printer_parser_selfchecks', tot['selfcheck'])
    chk.add('error_cases', tot['error_cases']); chk.add('error_cases_answered_with_error', tot['error_ok'])
    chk.add('sequences', tot['seq_cases']); chk.add('sequences_conforming', tot['seq_ok']); chk.add('sequence_statements_judged', tot['seq_steps'])
    chk.add('operator_occurrence', json.dumps(dict(sorted(ops.items()))))
    chk.add('depth_histogram', json.dumps(dict(sorted(depths.items()))))
    chk.add('error_kinds', json.dumps(dict(sorted(kinds.items()))))
    chk.add('operand_order_cases_decided_by_error_text', tot['order_decided'])
    chk.add('statement_forms', json.dumps(dict(sorted(forms.items()))))
    chk.add('harness_children_killed_as_stuck_and_rerun', tot['stuck'])
    chk.add('deviations_matching_as_is_model', sum(explained.values()))
    chk.add('cases_matching_several_variants', tot['multi'])
    # minimum observation thresholds
    chk.min_distinct = 100000 if thorough else 3000
    if tot['bulk_ok'] < (2000 if thorough else 300):
        chk.inconc('only %d value cases conformed: the workload is dominated by deviations and decides little' % tot['bulk_ok'])
    if tot['error_ok'] < 50 or tot['seq_ok'] < 50:
        chk.inconc('too few conforming error cases (%d) / sequences (%d)' % (tot['error_ok'], tot['seq_ok']))

    for k, n in sorted(explained.items()):
        chk.report(k, {'type': 'attributed', 'sample': expl_samples.get(k)}, 'attributed by the as-is model, e.g. %r' % (expl_samples.get(k),), n=n)

    # unexplained deviations: shrink against the real code
    asis = P.AsIs(active)
    budget = 400 if thorough else 60
    todo = sorted(unexplained['bulk'], key=lambda c: (c['size'], c['min']))
    for c in todo[:budget]:
        key, out = shrink_value(binary, c, asis)
        if key is None:
            chk.inconc(out)
        else:
            chk.report(key, out, 'reference %s, observed %r for %r (shrunk from %r)' % (out['ref'], out['observed'], out['min'], c['min']))
    for c in unexplained['error'][:budget]:
        key, out = classify_error(binary, c, asis)
        if key is None:
            chk.inconc(out)
        else:
            chk.report(key, out, '%s %r must be an error, observed %r %s' % (out['cmd'], out['text'], out['observed'], out.get('reports')))
    # sequences carry their key from the first divergence already; only the smallest one per key is minimised
    bykey = collections.defaultdict(list)
    for c in unexplained['seq']:
        bykey[c['key']].append(c)
    for k0, cs in sorted(bykey.items()):
        cs.sort(key=lambda c: len(c['steps']))
        key, out = shrink_sequence(binary, cs[0], active)
        if key is None:
            chk.inconc(out)
        else:
            chk.report(key, out, 'statements %r: %r %s' % (out['statements'], out['detail'], out.get('report') or ''), n=len(cs))
    left = more + sum(max(0, len(unexplained[t]) - budget) for t in ('bulk', 'error'))
    chk.add('deviations_shrunk_against_code', json.dumps({'value': min(len(todo), budget), 'error': min(len(unexplained['error']), budget), 'sequence_keys': len(bykey)}))
    if left and not chk.violations:
        chk.inconc('%d deviations beyond the shrink budget were not classified' % left)
    chk.add('stale_findings', len(stale_findings(chk, binary)))
    chk.exhaustive = False
    chk.finish()


if __name__ == '__main__':
    common.main_wrapper(main)
