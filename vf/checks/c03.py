"""C03 - The two micro-step engines are interchangeable.

Differential monitor: the same document and history are run with the 'large' and the 'fast' engine; the complete
recorded callback/log/step-result sequences must be equal. No reference model decides; it is only used to attribute a
difference to the known finding (fast implements the static conflict relation) by an exact match of both traces.
"""
import os, sys, json, zlib, collections, glob
from vf import common, chart as C, trace as T, refscxml, c01lib
from vf.common import Check
from vf.checks.c01 import NONTRIVIAL


def norm_lines(lines):
    return [l for l in lines if l and not l.startswith('[')]


class BigRef(refscxml.Ref):
    """attribution only: the engines ran to the driver's step cap (400 steps), so must the reference"""
    MAXMICRO = 450
    MAXSTEPS = 1500


def exact(ch, hist, dm, engine, parsed, variants, cancel_end=False):
    r = BigRef(ch, variants)
    r.interpret(hist, cancel_end=cancel_end)
    if r.diverged: return False
    v, k, d = c01lib.compare_case(ch, hist, dm, engine, parsed, r)
    return v == 'ok'


def attribute(ch, hist, dm, pl, pf, cancel_end=False):
    from vf.checks import c01
    v, k, d = c01.judge(ch, hist, dm, 'large', pl, cancel_end=cancel_end)
    if v == 'diverged':
        # long but terminating run: judge with the larger caps
        r0 = BigRef(ch); r0.interpret(hist, cancel_end=cancel_end)
        if not r0.diverged: v, k, d = c01lib.compare_case(ch, hist, dm, 'large', pl, r0)
    if v == 'deviation' and k == 'nested-history-shared-store':
        # both engines share the one-set history store; once it has produced a wrong (possibly illegal) configuration the engines need not agree
        return 'nested-history-shared-store'
    large_ok = exact(ch, hist, dm, 'large', pl, (), cancel_end) or exact(ch, hist, dm, 'large', pl, ('static_domain',), cancel_end)
    fast_static = exact(ch, hist, dm, 'fast', pf, ('static_select', 'static_domain'), cancel_end)
    if large_ok and fast_static:
        return 'fast-static-conflict-selection'
    if large_ok:
        # fast follows the static-selection reference up to a micro step where the shared history store shows (K9 predicate of vf.compare)
        r = BigRef(ch, ('static_select', 'static_domain')); r.interpret(hist, cancel_end=cancel_end)
        if not r.diverged:
            v2, k2, d2 = c01lib.compare_case(ch, hist, dm, 'fast', pf, r)
            if v2 == 'deviation' and k2 == 'nested-history-shared-store': return 'nested-history-shared-store'
    return None


def work(job):
    binary, cases = job
    built = []
    for cid, kind, arg, dm, hist in cases:
        if kind == 'rand':
            ch, h = c01lib.make_case(arg, dm)
        elif kind == 'fam':
            ch, h = arg, hist
        else:
            ch, h = None, hist   # raw xml
        built.append((cid, ch, h, dm, arg if kind == 'xml' else None))
    run = []
    for cid, ch, h, dm, xml in built:
        x = xml if xml is not None else C.render(ch, dm)
        fl = ['novars'] if xml is not None else []
        # every third generated case ends with cancel(): the completion path (exit handlers of all active states) must agree too
        if xml is None and zlib.crc32(cid.encode()) % 3 == 1: fl = fl + ['cancelend']
        for eng in ('large', 'fast'):
            run.append({'id': cid + ':' + eng, 'xml': x, 'engine': eng, 'hist': h, 'flags': fl})
        if zlib.crc32(cid.encode()) % 4 == 0:
            # no engine chosen at all: the interpreter instantiates its default, which is documented to be 'large'
            run.append({'id': cid + ':default', 'xml': x, 'engine': 'default', 'hist': h, 'flags': fl})
    res = c01lib.run_batch(binary, run)
    out = []
    for cid, ch, h, dm, xml in built:
        pl, pf = res[cid + ':large'], res[cid + ':fast']
        rec = {'id': cid, 'dm': dm, 'callbacks': len(pl['lines'])}
        if ch is not None:
            feats = ch.features()
            rec['hash'] = C.chart_hash(ch) + ':' + ','.join(h)
            rec['nontrivial'] = bool(feats & NONTRIVIAL) and len(pl['steps']) > 1
        else:
            rec['hash'] = cid; rec['nontrivial'] = len(pl['steps']) > 1
        bad = None
        for eng, p in (('large', pl), ('fast', pf)):
            if p['timeout']: bad = ('timeout', 'timeout:' + eng)
            elif p['crash']: bad = ('crash', 'crash:%s:%s' % (eng, str(p['crash'])[:80]))
        if bad and bad[0] == 'timeout':
            rec['v'] = 'timeout'; out.append(rec); continue
        a, b = norm_lines(pl['lines']), norm_lines(pf['lines'])
        if pl['stepcap'] or pf['stepcap']:
            rec['v'] = 'diverged'; out.append(rec); continue
        if bad:
            rec['v'] = 'crash'; rec['k'] = bad[1]
            rec['replay'] = {'xml': xml or C.render(ch, dm), 'history': h, 'stderr': (pl.get('stderr') or '') + (pf.get('stderr') or '')}
        elif a == b:
            rec['v'] = 'ok'
            pd = res.get(cid + ':default')
            if pd is not None and not (pd['timeout'] or pd['stepcap']):
                rec['default_compared'] = True
                d = norm_lines(pd['lines'])
                if pd['crash'] or d != a:
                    i = 0
                    while i < min(len(a), len(d)) and a[i] == d[i]: i += 1
                    rec['v'] = 'differ'; rec['k'] = 'default-engine-differs-from-large'
                    rec['replay'] = {'xml': xml or C.render(ch, dm), 'history': h, 'datamodel': dm, 'first_difference_line': i, 'crash': str(pd['crash'])[:300],
                                     'large': a[max(0, i - 6):i + 6], 'default': d[max(0, i - 6):i + 6]}
        else:
            i = 0
            while i < min(len(a), len(b)) and a[i] == b[i]: i += 1
            key = attribute(ch, h, dm, pl, pf, cancel_end=(zlib.crc32(cid.encode()) % 3 == 1)) if ch is not None else None
            if key is None:
                la = a[i].split(' ')[0] if i < len(a) else 'END'
                key = 'engines-differ:first-difference-at-%s' % la
            rec['v'] = 'differ'; rec['k'] = key
            rec['replay'] = {'xml': xml or C.render(ch, dm), 'history': h, 'datamodel': dm, 'first_difference_line': i,
                             'large': a[max(0, i - 6):i + 6], 'fast': b[max(0, i - 6):i + 6]}
        out.append(rec)
    return out


def irp_cases():
    """lua/promela/null W3C IRP documents without delay, invoke or src (full trace equality is meaningful there)."""
    out = []
    for dm in ('lua', 'promela', 'null'):
        for f in sorted(glob.glob(os.path.join(common.REPO, 'test/w3c', dm, 'test*.scxml'))):
            try:
                x = open(f, encoding='utf-8').read()
            except Exception:
                continue
            if 'delay' in x or '<invoke' in x or 'src=' in x or 'srcexpr' in x or 'basichttp' in x.lower() or 'sendidexpr' in x or '_sessionid' in x or 'idlocation' in x:
                continue
            out.append(('irp-%s-%s' % (dm, os.path.basename(f)[:-6]), 'xml', x, dm, []))
    return out


def main(tier, replay):
    chk = Check('C03', tier)
    common.build('asan')
    binary = common.harness('vdrv', 'asan')
    if replay:
        case = json.load(open(replay))['case']
        res = c01lib.run_batch(binary, [{'id': e, 'xml': case['xml'], 'engine': e, 'hist': case['history']} for e in ('large', 'fast')])
        a, b = norm_lines(res['large']['lines']), norm_lines(res['fast']['lines'])
        print('equal' if a == b else 'DIFFER')
        sys.exit(0 if a == b else 1)
    base = chk.seed * 1000000 + 77
    nrand = 2500 if tier == 'quick' else 20000
    cases = []
    for i in range(nrand):
        cases.append(('r%d' % i, 'rand', base + i, 'lua' if i % 3 else 'promela', None))
    for i in range(nrand // 4):
        cases.append(('n%d' % i, 'rand', base + 600000 + i, 'null', None))
    for i in range(nrand // 10):
        ch, h = C.gen_done_chart(base + 800000 + i)
        cases.append(('d%d' % i, 'fam', ch, ('lua', 'null')[i % 2], h))
        ch, h = C.gen_hist_chart(base + 850000 + i)
        cases.append(('h%d' % i, 'fam', ch, ('lua', 'null')[i % 2], h))
        ch, h = C.gen_multiinit_chart(base + 870000 + i)      # target sets with several members at different depths
        cases.append(('mi%d' % i, 'fam', ch, ('lua', 'null')[i % 2], h))
        for k in range(3):
            # selection among parallel regions: domains of every size on the same event
            ch, h = C.gen_conflict_chart(base + 900000 + 3 * i + k)
            cases.append(('k%d_%d' % (i, k), 'fam', ch, ('lua', 'null')[i % 2], h))
    fam = list(C.family_E(2, 2)) if tier == 'quick' else list(C.family_E(3, 2))
    n = 0
    for ch in fam:
        for h in ([['e1', 'e1']] if tier == 'quick' else [[], ['e1'], ['e1', 'e1']]):
            cases.append(('E%d' % n, 'fam', ch, 'lua', h)); n += 1
    irp = irp_cases()
    cases += irp
    chk.add('family_E_documents', len(fam)); chk.add('irp_documents', len(irp))
    jobs = [(binary, cases[i:i + 40]) for i in range(0, len(cases), 40)]
    verd = collections.Counter(); cb = 0
    for out in common.pmap(work, jobs):
        for rec in out:
            chk.count(); verd[rec['v']] += 1; cb += rec['callbacks']
            if rec.get('default_compared'): chk.add('runs_with_default_engine_compared', 1)
            if rec['v'] == 'diverged': continue
            if rec['nontrivial']: chk.nontrivial(rec['hash'])
            if rec['v'] == 'timeout': chk.inconc('timeout in case ' + rec['id'])
            elif rec['v'] in ('differ', 'crash'):
                chk.report(rec['k'], rec['replay'], '%s %s' % (rec['id'], rec['k']))
            elif len(chk.samples) < 5 and rec['nontrivial']:
                chk.sample({'case': rec['id'], 'datamodel': rec['dm'], 'callbacks_compared': rec['callbacks']})
    chk.add('verdicts', dict(verd)); chk.add('callback_lines_compared', cb)
    chk.rule = ('each case = one document + history run with engine large and engine fast; the full sequences of monitor callbacks (with arguments), log lines, '
                'processed events, step() results, final configuration and data are compared line by line. Cases: seeded random documents (lua/promela/null), family E, '
                'and the W3C IRP documents for lua/promela/null that use no delay/invoke/src. distinct_nontrivial = distinct (document, history) with more than the initial step using '
                'parallel/history/targetless/internal/multi-target/raise')
    chk.assumptions = ['the recording driver vdrv is engine agnostic', 'IRP documents with delays/invokes are left to C09/C11 (wall-clock dependent traces)']
    chk.min_distinct = 100
    chk.finish()


if __name__ == '__main__':
    common.main_wrapper(main)
