"""C20 - Transformation and interpretation are deterministic functions of their input.

Differential monitor over processes on the 'plain' build (glibc malloc + ASLR; sanitizer allocators would make addresses
repeatable): the same document at the same URL is transformed by vxform and by the real uscxml-transform binary in several
fresh processes with perturbed memory layout and with absent / valid / foreign cache files; emitted bytes must be equal.
Interpreter traces (both engines, cache files on) are compared across processes as well.
"""
import os, sys, json, subprocess, hashlib, collections, shutil, random
from vf import common, chart as C, trace as T, c01lib
from vf.common import Check

NESTED = '''<scxml xmlns="http://www.w3.org/2005/07/scxml" version="1.0" datamodel="promela" name="outer%(k)d">
  <datamodel><data id="v" type="int" expr="%(k)d"/></datamodel>
  <state id="a" initial="a1">
    <invoke type="scxml" id="inv_a%(k)d">
      <content><scxml version="1.0" datamodel="promela" name="childA"><state id="ca"><onentry><send target="#_parent" event="from.child-a:%(k)d"/></onentry><transition event="x y.z" target="cf"/></state><final id="cf"/></scxml></content>
    </invoke>
    <state id="a1">
      <invoke type="scxml" id="inv_a1">
        <content><scxml version="1.0" datamodel="promela" name="childB"><state id="cb">
          <invoke type="scxml" id="inv_cb"><content><scxml version="1.0" datamodel="promela" name="grandchild"><state id="g1"><transition event="deep.ev-%(k)d" target="g2"/></state><state id="g2"/></scxml></content></invoke>
          <transition event="quit now" target="cbf"/></state><final id="cbf"/></scxml></content>
      </invoke>
      <transition event="from.child-a:%(k)d" target="a2"><log label="got it" expr="v"/></transition>
    </state>
    <state id="a2"><onentry><send event="ev with space"/><send event="ev/slash"/><send event="ev-%(k)d.dot"/><raise event="done.it"/></onentry>
      <transition event="ev/slash ev-%(k)d.dot" target="b"/></state>
  </state>
  <state id="b">
    <invoke type="scxml" id="inv_b"><content><scxml version="1.0" datamodel="promela" name="childC"><state id="cc"><transition event="*" target="ccf"/></state><final id="ccf"/></scxml></content></invoke>
    <transition event="done.invoke.inv_b" target="end"/>
  </state>
  <final id="end"/>
</scxml>
'''


def sha(b): return hashlib.sha1(b).hexdigest()[:12]


def run_xform(binary, typ, xml, url, outdir, tag, env):
    os.makedirs(outdir, exist_ok=True)
    inp = ('JOB %s %s %d %s\n' % (tag, typ, len(xml.encode()), url)).encode() + xml.encode() + b'\n'
    e = dict(os.environ); e.update(env)
    p = subprocess.run([binary, outdir], input=inp, capture_output=True, env=e, timeout=120)
    f = os.path.join(outdir, '%s.%s' % (tag, typ))
    if p.returncode != 0 or not os.path.exists(f):
        return None, (p.stdout + p.stderr).decode('utf-8', 'replace')[-500:]
    return open(f, 'rb').read(), None


def timeshift_lib():
    """LD_PRELOAD shim that shifts the wall clock (harness/timeshift.c), built on demand next to the plain build's harness binaries"""
    src = os.path.join(common.VERIF, 'harness', 'timeshift.c'); so = os.path.join(common.BUILD_ROOT, 'plain', 'hbin', 'timeshift.so')
    if not os.path.exists(so) or os.path.getmtime(so) < os.path.getmtime(src):
        os.makedirs(os.path.dirname(so), exist_ok=True)
        p = subprocess.run(['gcc', '-shared', '-fPIC', '-O1', '-o', so, src, '-ldl'], capture_output=True, text=True)
        if p.returncode != 0: raise common.Inconclusive('cannot build timeshift.so: ' + p.stderr[-500:])
    return so


def layouts(rng, n, tmpbase):
    out = []
    shim = timeshift_lib()
    for i in range(n):
        env = {'PADDING': 'x' * rng.randint(0, 6000), 'MALLOC_ARENA_MAX': str(rng.choice([1, 2, 8])), 'MALLOC_TOP_PAD_': str(rng.choice([0, 4096, 1 << 20])),
               'MALLOC_PERTURB_': str(rng.randint(1, 255)), 'TMPDIR': os.path.join(tmpbase, 'tmp%d' % (i % 2))}
        if i == n - 1:
            # every allocation of 64 bytes or more comes from mmap: addresses of consecutive allocations then run downwards, the order of anything keyed by pointers flips
            env['MALLOC_MMAP_THRESHOLD_'] = '64'; env['MALLOC_TOP_PAD_'] = '0'
        if i % 2 == 1:
            # another day, another year: the run's date must not show in what is emitted
            env['LD_PRELOAD'] = shim; env['VERIF_TIME_OFFSET'] = str(rng.choice([86400 * 3, 86400 * 400, -86400 * 40]))
        os.makedirs(env['TMPDIR'], exist_ok=True)
        out.append(env)
    return out


def work(job):
    xbin, tbin, dbin, scratch, cases, seed = job
    rng = random.Random(seed)
    out = []
    for cid, kind, arg in cases:
        xml = NESTED % {'k': arg} if kind == 'nested' else C.render(c01lib.make_case(arg, 'promela')[0], 'promela')
        rec = {'id': cid, 'bad': [], 'outputs': 0, 'hash': sha(xml.encode()), 'kind': kind}
        d = os.path.join(scratch, cid)
        url = 'file:///verif/charts/%s.scxml' % cid
        envs = layouts(rng, 4, d)
        for typ in ('c', 'pml', 'vhdl'):
            if kind == 'nested' and typ == 'vhdl': continue      # the VHDL back-end does not support invoke
            outs = []
            for i, env in enumerate(envs):
                b, err = run_xform(xbin, typ, xml, url, os.path.join(d, 'o%d' % i), 'x', env)
                if b is None:
                    rec['bad'].append(('transform-failed:%s' % typ, {'error': err})); break
                outs.append(b)
            rec['outputs'] += len(outs)
            if len(outs) == len(envs) and len(set(outs)) != 1:
                a, b2 = outs[0], [o for o in outs if o != outs[0]][0]
                off = next((k for k in range(min(len(a), len(b2))) if a[k] != b2[k]), min(len(a), len(b2)))
                la = a[:off].count(b'\n')
                rec['bad'].append(('output-differs-between-processes:%s' % typ, {'backend': typ, 'distinct_outputs': len(set(outs)), 'first_differing_offset': off, 'line': la + 1,
                                                                               'run0': a.split(b'\n')[la][:160].decode('utf-8', 'replace'), 'runN': b2.split(b'\n')[la][:160].decode('utf-8', 'replace')}))
        if rec['bad']: rec['xml'] = xml
        out.append(rec)
    return out


def binary_part(chk, tbin, scratch, n):
    """the real uscxml-transform binary on files (same path = same URL)"""
    rng = random.Random(chk.seed + 5)
    cnt = 0
    for k in range(n):
        xml = NESTED % {'k': k} if k % 2 == 0 else C.render(c01lib.make_case(chk.seed * 1000 + k, 'promela')[0], 'promela')
        f = os.path.join(scratch, 'bin%d.scxml' % k)
        open(f, 'w').write(xml)
        for typ in ('c', 'pml') if k % 2 == 0 else ('c', 'pml', 'vhdl'):
            outs = []
            for env in layouts(rng, 3, os.path.join(scratch, 'bt%d' % k)):
                e = dict(os.environ); e.update(env)
                of = os.path.join(scratch, 'bin%d.out' % k)
                if os.path.exists(of): os.remove(of)
                p = subprocess.run([tbin, '-t' + typ, '-i', f, '-o', of], capture_output=True, env=e, timeout=120)
                if p.returncode != 0 and 'MALLOC_MMAP_THRESHOLD_' in env:
                    # one mapping per allocation can exhaust vm.max_map_count: the layout is not viable for this document, nothing to compare
                    chk.add('mmap_layout_not_viable', 1); continue
                # the tool starts its HTTP server on a fixed port and logs whether that worked: depends on what else runs on the machine, not on the input
                # (and its WebSocket server). The emitted text is taken from the output file (-o, same path every time), the log lines on stdout are not compared
                outs.append(open(of, 'rb').read() if os.path.exists(of) else b'<no output file> rc=%d' % p.returncode)
            cnt += len(outs); chk.count(len(outs))
            if len(set(outs)) != 1:
                a, b2 = outs[0], [o for o in outs if o != outs[0]][0]
                off = next((i for i in range(min(len(a), len(b2))) if a[i] != b2[i]), min(len(a), len(b2)))
                la = a[:off].count(b'\n')
                chk.report('output-differs-between-processes:%s' % typ, {'xml': xml, 'tool': 'uscxml-transform -t%s' % typ, 'first_differing_offset': off,
                                                                     'run0': a.split(b'\n')[la][:160].decode('utf-8', 'replace'), 'runN': b2.split(b'\n')[la][:160].decode('utf-8', 'replace')},
                           'uscxml-transform -t%s differs between runs' % typ)
    chk.add('uscxml_transform_binary_runs', cnt)


def interp_part(chk, dbin, scratch, n):
    """interpreter traces across processes, cache files enabled (private TMPDIR per document: cold, then warm)"""
    rng = random.Random(chk.seed + 9)
    runs = 0
    for k in range(n):
        ch, hist = c01lib.make_case(chk.seed * 5000 + k, 'lua' if k % 2 else 'promela')
        xml = C.render(ch, 'lua' if k % 2 else 'promela')
        for eng in ('large', 'fast'):
            outs = []
            tmp = os.path.join(scratch, 'ic%d%s' % (k, eng)); os.makedirs(tmp, exist_ok=True)
            for i in range(3):
                env = {'TMPDIR': tmp, 'PADDING': 'y' * rng.randint(0, 5000), 'MALLOC_PERTURB_': str(rng.randint(1, 255)), 'USCXML_NOCACHE_FILES': ''}
                e = dict(os.environ); e.update(env); e.pop('USCXML_NOCACHE_FILES', None)
                p = subprocess.run([dbin], input=T.job_text('j', eng, xml, hist), capture_output=True, env=e, timeout=120)
                lines = [l for l in p.stdout.decode('utf-8', 'replace').split('\n') if l and not l.startswith('[')]
                outs.append('\n'.join(lines))
            runs += 3; chk.count(3)
            if len(set(outs)) != 1:
                a, b2 = outs[0].split('\n'), [o for o in outs if o != outs[0]][0].split('\n')
                i = next((j for j in range(min(len(a), len(b2))) if a[j] != b2[j]), min(len(a), len(b2)))
                chk.report('interpreter-trace-differs-between-processes:%s' % eng, {'xml': xml, 'history': hist, 'engine': eng, 'line': i, 'run0': a[max(0, i - 3):i + 3], 'runN': b2[max(0, i - 3):i + 3]},
                           'trace of engine %s differs between processes (cold/warm cache)' % eng)
            elif len(outs[0]) > 200: chk.nontrivial('interp:%d:%s' % (k, eng))
    chk.add('interpreter_process_runs', runs)


def main(tier, replay):
    chk = Check('C20', tier)
    if replay:
        case = json.load(open(replay))['case']; print(json.dumps(case, indent=1)[:4000]); sys.exit(0)
    common.build('plain')
    xbin = common.harness('vxform', 'plain', transform=True)
    dbin = common.harness('vdrv', 'plain')
    tbin = os.path.join(common.BUILD_ROOT, 'plain', 'bin', 'uscxml-transform')
    scratch = common.scratch('c20')
    n = 18 if tier == 'quick' else 600
    cases = []
    for i in range(n):
        cases.append(('d%d' % i, 'nested' if i % 3 == 0 else 'rand', (chk.seed * 100 + i) if i % 3 == 0 else (chk.seed * 1000000 + 2020 + i)))
    jobs = [(xbin, tbin, dbin, scratch, cases[i:i + 3], chk.seed * 77 + i) for i in range(0, len(cases), 3)]
    outputs = 0
    for out in common.pmap(work, jobs):
        for rec in out:
            chk.count(max(1, rec['outputs'])); outputs += rec['outputs']
            chk.nontrivial(rec['hash'])
            seen = set()
            for key, det in rec['bad']:
                if key in seen: continue
                seen.add(key)
                chk.report(key, {'xml': rec['xml'], 'detail': det}, '%s %s' % (rec['id'], key))
            if not rec['bad'] and len(chk.samples) < 3:
                chk.sample({'case': rec['id'], 'kind': rec['kind'], 'outputs_compared': rec['outputs']})
    binary_part(chk, tbin, scratch, 4 if tier == 'quick' else 60)
    interp_part(chk, dbin, scratch, 20 if tier == 'quick' else 600)
    shutil.rmtree(scratch, ignore_errors=True)
    chk.add('emitted_outputs_compared', outputs)
    chk.rule = ('each document (seeded random + hand-shaped stress: nested invoked machines two levels deep with ids, event names with non-identifier characters) is transformed to c/pml/vhdl in 4 fresh '
                'processes with perturbed layouts (environment padding, malloc arena/top-pad/perturb, alternating TMPDIR) through vxform and in 3 through the real uscxml-transform binary; bytes must be equal. '
                'Interpreter traces of both engines are compared across 3 processes sharing one TMPDIR (cache cold, then warm). distinct_nontrivial = distinct documents + distinct non-empty interpreter cases')
    chk.assumptions = ['plain build: ASLR and glibc malloc are in effect', 'fields random by specification (session ids, generated send ids) do not appear in the recorded trace']
    chk.min_distinct = 10
    chk.finish()


if __name__ == '__main__':
    common.main_wrapper(main)
