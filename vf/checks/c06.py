"""C06 - The Promela model preserves the chart's behaviour.

The real ChartToPromela output is executed by spin's *simulator* (spin -T -n<seed>; the verifier pan is deliberately not used)
and the TRACE_EXECUTION output (event taken, states exited/entered, transitions taken, log values, final configuration)
is compared with the interpreter's recorded history for the same document. External events are produced by the document
itself (sends queued by the initial state), because the model has no environment process.
"""
import os, sys, re, json, subprocess, collections, shutil, random, copy
from vf import common, chart as C, trace as T, xform, c01lib, refscxml, tables
from vf.common import Check
from vf.checks.c01 import NONTRIVIAL

TOK = re.compile(r'Establishing optimal transition set for event (\d+)|Exiting state (\d+)|Entering state (\d+)|Taking transition (\d+)|((?:[NXTHIZPD]|R[FVIEPC])\d+): (-?\d+)|Found (NO) transitions|Machine (finished)|(Entering initial default completion)')


def make_case(seed):
    rng = random.Random(seed)
    if seed < 0:
        # done.state family / history family (spin prints a log only when it has an expr)
        ch, hist = (C.gen_done_chart, C.gen_hist_chart, C.gen_conflict_chart, C.gen_multiinit_chart)[seed % 4](-seed, ('const', 1))
        ch.data = {}
        hist = hist[:5]
    else:
        ch, hist = C.gen_chart(seed, data=True, errors=False, rich=True)
        if seed % 8 == 0: hist = C.long_event_names(ch, hist)      # event names that only differ behind their 72nd character
        if seed % 5 == 1: C.substring_ids(ch)                     # state ids that are prefixes of one another
    # the external history is sent by the document itself, once, from the first state entered by default
    first = ch.root.states()[0] if not ch.root.initial_attr else ch.by_id[ch.root.initial_attr[0]]
    ch.data['g'] = 0
    sends = [('send', e) for e in hist if e != 'zz'] + [('assign', 'g', ('const', 1))]
    first.onentry.insert(0, [('if', [(('eq', ('var', 'g'), ('const', 0)), sends)], None)])
    ch.reindex()
    return ch


def parse_spin(out, ch):
    nodes, trans, byid = tables.build(ch)
    name = dict((n.idx, n.id or ('root' if n.idx == 0 else '?')) for n in nodes)
    steps = []; cur = None
    # the model prints a log value without a newline; a "<pid>: Sending ..." trace line of a following <send>/<raise> is glued to it
    # ("X3: 11: Sending I1" = value 1, pid 1).
    # The models have two processes, the pid is one digit.
    out = re.sub(r'(?<=\d)(?=\d: Sending )', '\n', out)
    for m in TOK.finditer(out):
        if m.group(1) is not None:
            cur = {'evi': int(m.group(1)), 'acts': []}; steps.append(cur)
        elif m.group(9) is not None:
            if cur is None: cur = {'evi': 0, 'acts': []}; steps.append(cur)   # machines without transitions print no selection trace
        elif cur is None: continue
        elif m.group(2) is not None: cur['acts'].append(('exit', name.get(int(m.group(2)), '?')))
        elif m.group(3) is not None: cur['acts'].append(('enter', name.get(int(m.group(3)), '?')))
        elif m.group(4) is not None:
            t = trans[int(m.group(4))] if int(m.group(4)) < len(trans) else None
            if t is not None and not t['pseudo']: cur['acts'].append(('trans', t['src'].id or 'root', t['t'].idx))
        elif m.group(5) is not None: cur['acts'].append(('log', m.group(5), m.group(6)))
        elif m.group(7) is not None: cur['noop'] = True
        elif m.group(8) is not None: cur['finished'] = True
    conf = {}
    for m in re.finditer(r'\w+?_config\[(\d+)\] = (\d)', out): conf[int(m.group(1))] = m.group(2) == '1'
    final = sorted(name[i] for i, v in conf.items() if v and nodes[i].kind in ('state', 'parallel', 'final', 'scxml'))
    return steps, final


def event_names(pml):
    ev = {0: None}
    for m in re.finditer(r'#define (\w+) (\d+) /\* (\S+) \*/', pml):
        ev.setdefault(int(m.group(2)), m.group(3)) if not m.group(1).startswith(('ROOT', 'USCXML')) else None
    return ev


def proj_model(steps, evname):
    out = []
    for i, s in enumerate(steps):
        if s.get('noop') and s['evi'] == 0: continue          # the model re-tries the spontaneous step after every event
        out.append((evname.get(s['evi'], '#%d' % s['evi']) if s['evi'] else (None if i else '#init'), tuple(s['acts'])))
    return out


def proj_interp(psteps, dm='promela'):
    out = []
    for s in psteps:
        ev = s.get('ev')
        if ev == '#outside': continue
        # a <log> without expr prints nothing in the model (RV: _event.name is rendered for lua only)
        acts = tuple(a if a[0] != 'log' else ('log', a[1], a[2]) for a in s['acts'] if not (a[0] == 'log' and (a[2] is None or a[1].startswith('RV'))))
        if ev == '#completion':
            # the model runs the exit handlers of the final configuration right after the step that entered the top-level final
            if out: out[-1] = (out[-1][0], out[-1][1] + tuple(a for a in acts if a[0] == 'log'))
            continue
        out.append((ev, acts))
    return out


def work(job):
    xbin, dbin, outdir, seeds = job
    os.makedirs(outdir, exist_ok=True)
    built = {}
    for cid, seed in seeds:
        ch = make_case(seed)
        ref = c01lib.ref_run(ch, [])
        if ref.diverged: continue
        built[cid] = ch
    res = xform.transform_batch(xbin, [(cid, 'pml', C.render(ch, 'promela')) for cid, ch in built.items()], outdir)
    runs = c01lib.run_batch(dbin, [{'id': cid, 'xml': C.render(ch, 'promela'), 'engine': 'large', 'hist': []} for cid, ch in built.items()])
    out = []
    for cid, ch in built.items():
        rec = {'id': cid, 'hash': C.chart_hash(ch), 'bad': [], 'nontrivial': bool(ch.features() & NONTRIVIAL), 'items': 0}
        r = res.get(cid); pi = runs[cid]
        if not r or r[0] != 'ok':
            rec['bad'].append(('transform:' + str(r[1] if r else None)[:100], {'stderr': r[2] if r and len(r) > 2 else None}))
        elif pi['crash'] or pi['timeout'] or pi['stepcap']:
            rec['skip'] = True
        else:
            pml = open(os.path.join(outdir, cid + '.pml'), errors='replace').read()
            evname = event_names(pml)
            sims = []
            for sd in (1, 2, 3):
                rc, so, se, to = common.run_proc(['spin', '-T', '-n%d' % sd, '-u40000', cid + '.pml'], cwd=outdir, timeout=120)
                if to: rec['bad'].append(('spin-simulation-hangs', {})); break
                if rc is not None and rc < 0 and 'rror:' not in (so or '') + (se or ''):
                    rec['skip'] = True; rec['spin_crashed'] = rc; break      # the simulator itself died from a signal (seen: SIGSEGV in spin 6.5 on events with data fields): nothing can be judged
                if rc != 0 or 'rror:' in (so or '') or 'rror:' in (se or ''):
                    m = re.search(r'rror: ([^\n]*)', (so or '') + (se or ''))
                    why = re.sub(r'[^a-z_]+', '-', (m.group(1) if m else 'unknown').lower())[:40]
                    rec['bad'].append(('spin-rejects-model:' + why, {'rc': rc, 'error': m.group(0) if m else None, 'stderr': (se or '')[:500]})); break
                sims.append(so)
            if len(sims) == 3:
                if not (sims[0] == sims[1] == sims[2]):
                    rec['seed_dependent'] = True
                steps, final = parse_spin(sims[0], ch)
                a = proj_interp(pi['steps']); b = proj_model(steps, evname)
                if re.search(r'^\s*40000:\s+proc ', sims[0], re.M):
                    # the simulation ran into the step bound (-u40000): the trace is a prefix, its last step incomplete
                    b = b[:-1]; a = a[:len(b)]; final = None; rec['truncated'] = True
                if not ch.transitions():
                    # a machine without transitions prints no selection trace in the model: events that enable nothing are invisible there
                    a = [x for x in a if x[1]]; b = [x for x in b if x[1]]
                rec['items'] = sum(len(x[1]) + 1 for x in b)
                # interpreter completion step has no counterpart; the model stops at 'Machine finished'
                if a != b:
                    i = 0
                    while i < min(len(a), len(b)) and a[i] == b[i]: i += 1
                    det = {'first_difference_step': i, 'interpreter': [list(x) for x in a[max(0, i - 1):i + 2]], 'model': [list(x) for x in b[max(0, i - 1):i + 2]]}
                    rw = refscxml.Ref(ch); rw.interpret([])
                    rs = refscxml.Ref(ch, ('static_select', 'static_domain')); rs.interpret([])
                    if rs.diverged or rw.diverged:
                        rec['skip'] = True; out.append(rec); continue
                    pw = proj_interp([s for s in T.ref_steps(rw)]) if not rw.diverged else None
                    ps = proj_interp([s for s in T.ref_steps(rs)]) if not rs.diverged else None
                    if pw != a:
                        # the interpreter itself may show the known static transition domain (C01 history-target-static-domain): compare with that variant
                        rd = refscxml.Ref(ch, ('static_domain',)); rd.interpret([])
                        if not rd.diverged and proj_interp([s for s in T.ref_steps(rd)]) == a: pw = a; det['interpreter_equals_reference_with_static_domain'] = True
                    det['interpreter_equals_w3c_reference'] = (pw == a); det['model_equals_static_reference'] = (ps == b)
                    hs = [q for q in ch.doc if q.kind == 'history']
                    nested = any(x is not y and C.is_descendant(y.parent, x.parent) for x in hs for y in hs)
                    par = set(q.id for q in ch.doc if q.kind == 'parallel')
                    # where does the model leave the reference run under the transpilers' conflict relation?
                    j = 0
                    while ps is not None and j < min(len(ps), len(b)) and ps[j] == b[j]: j += 1
                    det['first_difference_to_static_reference'] = j
                    if ps == b and pw == a: key = 'static-conflict-selection'
                    elif pw == a and j < len(b) and isinstance(b[j][0], str) and b[j][0].startswith('done.state.') and b[j][0][11:] in par and (j >= len(ps) or ps[j][0] != b[j][0]):
                        key = 'model-raises-done-state-of-parallel-early'
                    elif nested: key = 'nested-history'
                    else:
                        kind = 'END'
                        if i < len(a) and i < len(b):
                            kind = 'event' if a[i][0] != b[i][0] else 'actions'
                        key = 'model-differs-from-interpreter:first-difference-in-' + kind
                    rec['bad'].append((key, det))
                elif pi['final'] is not None and final and sorted(pi['final']) != final and pi['results'][-1:] != [-1]:
                    rec['bad'].append(('final-configuration-differs', {'interpreter': pi['final'], 'model': final}))
        if rec['bad']: rec['xml'] = C.render(ch, 'promela')
        for f in os.listdir(outdir):
            if f.startswith(cid + '.'):
                try: os.unlink(os.path.join(outdir, f))
                except OSError: pass
        out.append(rec)
    return out


def main(tier, replay):
    chk = Check('C06', tier)
    if replay:
        case = json.load(open(replay))['case']; print(json.dumps(case, indent=1)[:5000]); sys.exit(0)
    if shutil.which('spin') is None: raise common.Inconclusive('spin not installed')
    common.build('asan')
    xbin = common.harness('vxform', 'asan', transform=True); dbin = common.harness('vdrv', 'asan')
    outroot = common.scratch('c06')
    n = 800 if tier == 'quick' else 4000
    base = chk.seed * 1000000 + 606
    seeds = [('m%d' % i, base + i) for i in range(n)] + [('d%d' % i, -(base + 700000 + i)) for i in range(n // 5)]
    jobs = [(xbin, dbin, os.path.join(outroot, 'w%d' % (i // 10)), seeds[i:i + 10]) for i in range(0, len(seeds), 10)]
    items = 0; sd = 0; sk = 0
    for out in common.pmap(work, jobs):
        for rec in out:
            chk.count()
            if rec.get('spin_crashed'): chk.add('spin_simulator_crashed', 1)
            if rec.get('truncated'): chk.add('simulations_cut_at_the_step_bound', 1)
            if rec.get('skip'): sk += 1; continue
            items += rec['items']
            if rec.get('seed_dependent'): sd += 1
            if rec['nontrivial'] and rec['items'] > 4: chk.nontrivial(rec['hash'])
            for key, det in rec['bad']:
                chk.report(key, {'xml': rec['xml'], 'detail': det}, '%s %s' % (rec['id'], key))
            if not rec['bad'] and len(chk.samples) < 4 and rec['items'] > 10:
                chk.sample({'case': rec['id'], 'trace_items_compared': rec['items']})
    shutil.rmtree(outroot, ignore_errors=True)
    chk.add('trace_items_compared', items); chk.add('seed_dependent_simulations', sd); chk.add('skipped', sk)
    chk.rule = ('each case = seeded random promela-datamodel document whose external events are sent by the document itself; ChartToPromela output simulated with spin -T for 3 seeds; '
                'per step: event, exited/entered states, taken transitions, log values (and final configuration) compared with the interpreter (engine large). '
                'distinct_nontrivial = distinct documents using parallel/history/targetless/internal/multi-target/raise with >4 trace items')
    chk.assumptions = ['simulation seeds sample the executions of the model; the fragment is deterministic so every seed must give the same trace (seed-dependent traces are counted)',
                       'state/transition indices mapped through document/post-fix order (vf/tables.py)']
    chk.min_distinct = 40
    chk.finish()


if __name__ == '__main__':
    common.main_wrapper(main)
