"""C16 - Values survive the trip through the Lua datamodel; system variables cannot be assigned.

Subject: the real interpreter with datamodel="lua" (ASan+UBSan build) driven in-process by harness/vlua.cpp. For every generated
value one document is run that sends the value along every route at once; each route ends in DataModel::evalAsData of the variable
the value arrived in, and the denotation of the Data that comes back is compared with the value that went in (vf/luaval.py).

Routes (group in brackets; the group is part of a finding key):
  dm-assign, dm-init            DataModel::assign/init(loc, Data v) -> evalAsData(loc)                                   [via-data]
  event-data/-param/-namelist   Interpreter::receive(Event carrying Data v) -> transition copies _event.data[.k]          [via-data]
  data-expr, assign-expr        <data expr="LUA"> / <assign expr="LUA">                                                  [via-expr]
  send-content, donedata-content <content expr="v"/> -> _event.data                                                       [via-expr]
  send-param, send-namelist     <send> to self with <param expr="v"/> / namelist="v" -> _event.data.p / .v                [via-send]
  donedata-param                <donedata><param expr="v"/> -> done.state event data                                     [via-send]
  data-inline, send-inline      Lua literal as text child of <data> / <content>                                          [via-inline]
  *:payload                     the Data the interpreter put into the sent event (seen by a monitor)                      [via-expr]
A failing route is classified by a causal test: the value is re-run with suspected trigger features neutralised (empty string,
empty container, array with >=10 elements, integer beyond 2^53, real needing 17 digits, digits-and-minus expression); the finding
key is <feature>:<group> for the smallest set of features whose removal alone cures the route. Anything not cured is shrunk and
reported under its own key. Second part: assignment to system variables by chart code (see sysvar_cases).
"""
import os, sys, json, re, random, hashlib, collections, itertools
from vf import common, dtree, luaval
from vf.common import Check, Inconclusive
from vf.luaval import NIL

PROP = 'C16'
WORKERS = 6
NS = 'http://www.w3.org/2005/07/scxml'


def load_part(chk):
    """known-finding lines kept next to the witnesses (same format as known_findings.txt); harmless once merged"""
    p = os.path.join(common.VERIF, 'known', chk.prop, 'known_findings.part')
    if os.path.exists(p):
        for ln in open(p):
            m = re.match(r'property=(\S+) key=(\S+)(?: witness=(\S+))? :: (.*)$', ln.strip())
            if m and m.group(1) == chk.prop:
                chk.known.by_prop[chk.prop].setdefault(m.group(2), (m.group(3), m.group(4)))


def xesc(s):
    return s.replace('&', '&amp;').replace('<', '&lt;').replace('>', '&gt;').replace('"', '&quot;')


GROUP = {
    'dm-assign': 'via-data', 'dm-init': 'via-data', 'event-data': 'via-data', 'event-param': 'via-data', 'event-namelist': 'via-data',
    'data-expr': 'via-expr', 'assign-expr': 'via-expr', 'send-content': 'via-expr', 'donedata-content': 'via-expr',
    'send-param': 'via-send', 'send-namelist': 'via-send', 'donedata-param': 'via-send',
    'data-inline': 'via-inline', 'send-inline': 'via-inline',
    'send-param:payload': 'via-expr', 'send-namelist:payload': 'via-expr', 'donedata-param:payload': 'via-expr', 'process': 'process',
}
CHART_EVALS = [('data-expr', 'v'), ('data-inline', 'vi'), ('assign-expr', 'r_assign'), ('send-param', 'r_param'), ('send-namelist', 'r_nl'), ('send-content', 'r_content'),
               ('send-inline', 'r_inline'), ('donedata-param', 'r_dd_param'), ('donedata-content', 'r_dd_content')]


def value_chart(lua):
    """one document that sends the value of the Lua literal/expression `lua` along every chart-level route"""
    a, t = xesc(lua), xesc(lua)
    return ('<scxml xmlns="%s" version="1.0" datamodel="lua" name="c16" initial="top">'
            '<datamodel><data id="v" expr="%s"/><data id="vi">%s</data></datamodel>'
            '<state id="top" initial="a">'
            '<transition event="in"><assign location="r_ev" expr="_event.data"/></transition>'
            '<transition event="in2"><assign location="r_ev2" expr="_event.data.k"/></transition>'
            '<transition event="in3"><assign location="r_ev3" expr="_event.data.k"/></transition>'
            '<state id="a">'
            '<onentry><assign location="r_assign" expr="%s"/></onentry>'
            '<onentry><send event="e.param"><param name="p" expr="v"/></send></onentry>'
            '<onentry><send event="e.nl" namelist="v"/></onentry>'
            '<onentry><send event="e.content"><content expr="v"/></send></onentry>'
            '<onentry><send event="e.inline"><content>%s</content></send></onentry>'
            '<transition event="e.param"><assign location="r_param" expr="_event.data.p"/></transition>'
            '<transition event="e.nl"><assign location="r_nl" expr="_event.data.v"/></transition>'
            '<transition event="e.content"><assign location="r_content" expr="_event.data"/></transition>'
            '<transition event="e.inline"><assign location="r_inline" expr="_event.data"/></transition>'
            '<transition event="dd" target="b"/>'
            '</state>'
            '<state id="b" initial="bf"><final id="bf"><donedata><param name="p" expr="v"/></donedata></final>'
            '<transition event="done.state.b" target="c"><assign location="r_dd_param" expr="_event.data.p"/></transition></state>'
            '<state id="c" initial="cf"><final id="cf"><donedata><content expr="v"/></donedata></final>'
            '<transition event="done.state.c" target="d"><assign location="r_dd_content" expr="_event.data"/></transition></state>'
            '<state id="d"/>'
            '</state>'
            '</scxml>') % (NS, a, t, a, t)


def api_event(name, **kw):
    e = {'name': name, 'sendid': b'', 'invokeid': b'', 'raw': b'', 'origin': b'', 'origintype': b'', 'eventType': 2, 'hideSendId': True, 'data': dtree.EMPTY, 'params': [], 'namelist': {}}
    e.update(kw)
    return e


def case_lines(cid, case):
    """protocol block for a value case {'lua': text, 'value': v}; returns (lines, labels of the answer lines we read)"""
    v = case['value']
    L = ['BEGIN %s %s' % (cid, dtree.hx(value_chart(case['lua']).encode())), 'RUN']
    labels = []
    # chart-level routes first, so that a process dying in an API route cannot hide them
    L += ['RECV ' + dtree.enc_event(api_event(b'dd')), 'RUN']
    L += ['EVAL ' + dtree.hx(var.encode()) for _, var in CHART_EVALS]
    labels += [r for r, _ in CHART_EVALS]
    api = luaval.data_expressible(v) and not case.get('expr_only')
    if api:
        d = dtree.enc(luaval.to_data(v))
        L += ['RECV ' + dtree.enc_event(api_event(b'in', data=luaval.to_data(v))), 'RUN',
              'RECV ' + dtree.enc_event(api_event(b'in2', params=[(b'k', luaval.to_data(v))])), 'RUN',
              'RECV ' + dtree.enc_event(api_event(b'in3', namelist={b'k': luaval.to_data(v)})), 'RUN']
        L += ['EVAL ' + dtree.hx(x) for x in (b'r_ev', b'r_ev2', b'r_ev3')]
        labels += ['event-data', 'event-param', 'event-namelist']
        L += ['ASSIGN %s %s' % (dtree.hx(b'va'), d), 'EVAL ' + dtree.hx(b'va'), 'INIT %s %s' % (dtree.hx(b'vb'), d), 'EVAL ' + dtree.hx(b'vb')]
        labels += ['dm-assign', 'dm-init']
    L.append('END')
    return L, labels


def parse_block(block, labels):
    """block: answer lines of one case -> {route: ('V', node) | ('T', name, cause) | ('X', text)}, events [(name, event)], notes"""
    obs, events, notes = {}, [], []
    evals = []
    for ln in block:
        t = ln.split(' ')
        if t[0] == 'V':
            evals.append(('V', dtree.dec(t, 1)[0]))
        elif t[0] == 'VT':
            evals.append(('T', dtree.unhx(t[1]).decode('latin-1'), dtree.unhx(t[2]).decode('latin-1')))
        elif t[0] in ('VX',):
            evals.append(('X', dtree.unhx(t[1]).decode('latin-1')))
        elif t[0] == 'E':
            ev, _ = dtree.dec_event(t, 1)
            events.append(ev)
        elif t[0] in ('XT', 'XX', 'AT', 'AX', 'NOSESSION', '??'):
            notes.append(ln[:200])
            if t[0] in ('XT', 'XX') and len(evals) < len(labels):
                pass
    for lab, e in zip(labels, evals):
        obs[lab] = e
    if len(evals) != len(labels):
        notes.append('answers %d != expected %d' % (len(evals), len(labels)))
    # payload observations
    for ev in events:
        if ev['name'] == b'e.param':
            obs['send-param:payload'] = ('V', dict(ev['params']).get(b'p', dtree.EMPTY)) if ev['params'] else ('V', dtree.EMPTY)
        elif ev['name'] == b'e.nl':
            obs['send-namelist:payload'] = ('V', ev['namelist'].get(b'v', dtree.EMPTY))
        elif ev['name'] == b'done.state.b':
            obs['donedata-param:payload'] = ('V', dict(ev['params']).get(b'p', dtree.EMPTY)) if ev['params'] else ('V', dtree.EMPTY)
    return obs, events, notes


def crash_sig(err, rc):
    err = err or ''
    s = common.sanitizer_summary(err)
    if s:
        kind = re.sub(r'^ERROR: AddressSanitizer: |^runtime error: ', '', s.split(' @ ')[0])
        kind = re.sub(r"'[^']*'|0x[0-9a-f]+|\d+", '', kind)
        fr = re.search(r'#\d+ 0x[0-9a-f]+ in ((?:[^\s(<]|<[^>]*>)+)[^\n]*? /repo/', err)
        return re.sub(r'[^\w]+', '-', kind).strip('-')[:40] + '@' + re.sub(r'[^\w:]+', '_', fr.group(1) if fr else '?')[:50], s[:300]
    return 'exit-%s' % rc, 'no sanitizer report, rc=%s: %s' % (rc, err[-300:])


VLUA_ENV = {'ASAN_OPTIONS': common.ASAN_ENV['ASAN_OPTIONS'] + ':hard_rss_limit_mb=700'}    # a runaway allocation must not take the machine down


def loader_trouble(rc, err):
    """the sanitizer build is being re-linked by a concurrent check: not a verdict about the subject"""
    return rc == 127 or 'error while loading shared libraries' in (err or '') or 'symbol lookup error' in (err or '')


def split_blocks(out):
    cur, done = [], []
    for ln in out.split('\n'):
        if ln.startswith('END '):
            done.append(cur)
            cur = []
        elif ln.startswith('BEGIN '):
            cur = []
        elif ln:
            cur.append(ln)
    return done, cur


def run_blocks(binary, blocks):
    """blocks: list of line lists (each BEGIN..END). -> list of (answer lines, crashinfo | None); for a case the process died in, the
    answer lines are those it produced before dying (from a run of the case alone). A dying process is restarted after that case."""
    import time
    res = [None] * len(blocks)
    i = 0
    retries = 0
    while i < len(blocks):
        chunk = blocks[i:]
        inp = '\n'.join('\n'.join(b) for b in chunk) + '\n'
        rc, out, err, to = common.run_proc([binary], inp=inp, timeout=120 + 0.5 * len(chunk), env=VLUA_ENV)
        if loader_trouble(rc, err):
            retries += 1
            if retries > 40:
                raise Inconclusive('harness binary cannot be loaded (library being rebuilt?): %s' % (err or '')[-200:])
            time.sleep(3)
            continue
        done, _ = split_blocks(out)
        for k, b in enumerate(done[:len(chunk)]):
            res[i + k] = (b, None)
        if not to and rc == 0 and len(done) >= len(chunk):
            break
        bad = min(i + len(done), len(blocks) - 1)
        # verdict from a run of the case alone
        for _ in range(40):
            rc2, out2, err2, to2 = common.run_proc([binary], inp='\n'.join(blocks[bad]) + '\n', timeout=60, env=VLUA_ENV)
            if not loader_trouble(rc2, err2):
                break
            time.sleep(3)
        else:
            raise Inconclusive('harness binary cannot be loaded (library being rebuilt?)')
        done2, partial = split_blocks(out2)
        if to2:
            info = {'kind': 'hang', 'sig': 'case alone did not finish in 60 s', 'alone': True}
        elif rc2 != 0:
            if 'hard rss limit exhausted' in (err2 or ''):
                k, s = 'memory-exhausted', 'resident set grew beyond 700 MB (AddressSanitizer hard_rss_limit)'
            else:
                k, s = crash_sig(err2, rc2)
            info = {'kind': k, 'sig': s, 'alone': True}
        else:
            # survives alone: symptom depends on process history (e.g. uninitialised memory); keep the batch's evidence
            if 'hard rss limit exhausted' in (err or ''):
                k, s = 'memory-exhausted', 'resident set grew beyond 700 MB (AddressSanitizer hard_rss_limit)'
            else:
                k, s = crash_sig(err, rc) if not to else ('hang-in-batch', 'batch timed out')
            info = {'kind': k + ':only-in-batch', 'sig': s, 'alone': False}
            partial = split_blocks(out)[1]
        res[bad] = (partial, info)
        i = bad + 1
    return res


# ------------------------------------------------------------------------------------------------ judging
def judge(case, obs, crash=None):
    """-> {route: (what, msg)} for routes whose read-back value denotes something else than case['value']; a process that died during
    a route's read-back (or before any) makes that route fail with what='crash-<kind>'"""
    v = case['value']
    bad = {}
    if crash:
        bad[crash.get('route') or 'process'] = ('crash-' + crash['kind'], crash['sig'])
    for route, o in obs.items():
        if case.get('expr_only') and GROUP[route] != 'via-expr':
            continue
        if o[0] != 'V':
            bad[route] = ('threw', 'evalAsData threw %s' % (o[1:],))
            continue
        d = luaval.first_diff(v, luaval.denote(o[1]))
        if d:
            bad[route] = (d[3], 'at %s: expected %s, read back %s' % (d[0], luaval.show(d[1], 60), luaval.show(d[2], 60)))
    return bad


EXPR_FEATURE = 'digits-and-minus-expression'


def case_features(case):
    fs = [f for f in luaval.FEATURES if luaval.has_feature(case['value'], f)]
    if case.get('expr_only') and re.match(r'^[-.0-9]+$', case['lua']) and not re.match(r'^-?(\d+\.?\d*|\.\d+)$', case['lua']):
        fs.append(EXPR_FEATURE)
    return fs


def neutralised(case, fs):
    v2 = luaval.neutralise(case['value'], fs)
    c2 = {'value': v2, 'lua': luaval.lua_literal(v2) if (EXPR_FEATURE in fs or not case.get('expr_only')) else case['lua']}
    if case.get('expr_only') and EXPR_FEATURE not in fs:
        c2['expr_only'] = True
    return c2


def run_cases(binary, cases):
    blocks, labels = [], []
    for i, c in enumerate(cases):
        L, lab = case_lines('c%d' % i, c)
        blocks.append(L)
        labels.append(lab)
    out = []
    for c, lab, (block, crash) in zip(cases, labels, run_blocks(binary, blocks)):
        obs, events, notes = parse_block(block or [], lab)
        if crash:
            # the route whose read-back was in progress when the process died
            pending = [l for l in lab if l not in obs]
            crash = dict(crash, route=pending[0] if pending else None)
            notes = []
        out.append((obs, crash, notes))
    return out


def classify(binary, failing):
    """failing: list of (case, bad routes dict). -> list of (key, case, route, msg, witness_case)"""
    results = []
    variants, index = [], []
    for ci, (case, bad) in enumerate(failing):
        fs = case_features(case)
        subsets = [s for n in range(1, len(fs) + 1) for s in itertools.combinations(fs, n)]
        for s in subsets:
            index.append((ci, s))
            variants.append(neutralised(case, set(s)))
    vres = run_cases(binary, variants) if variants else []
    cured_by = collections.defaultdict(dict)      # ci -> route -> smallest curing subset
    for (ci, s), vc, (obs, crash, notes) in zip(index, variants, vres):
        vb = judge(vc, obs, crash)                # a variant that dies still cures the routes it answered before
        for route in failing[ci][1]:
            if route in obs and route not in vb and route not in cured_by[ci]:
                cured_by[ci][route] = s           # subsets are enumerated smallest first
    unexplained = []
    for ci, (case, bad) in enumerate(failing):
        pure = bad.get('data-expr')               # the value already differs after one evaluate-and-read-back
        for route, (what, msg) in sorted(bad.items()):
            s = cured_by[ci].get(route)
            if s is None:
                unexplained.append((case, route, what, msg))
                continue
            for f in s:
                grp = GROUP[route]
                if f != EXPR_FEATURE and grp != 'process' and 'data-expr' in cured_by[ci] and f in cured_by[ci]['data-expr'] and pure:
                    grp = 'lua-to-data'           # lost by evalAsData itself (Lua -> Data), which ends every route
                results.append(('%s:%s' % (f, grp), case, route, msg))
    return results, unexplained


def shrink_value(v):
    """smaller values, deterministic order"""
    if isinstance(v, list):
        for x in v:
            yield x
        for i in range(len(v)):
            yield v[:i] + v[i + 1:]
        for i, x in enumerate(v):
            for y in shrink_value(x):
                yield v[:i] + [y] + v[i + 1:]
    elif isinstance(v, dict):
        for k in sorted(v):
            yield v[k]
        for k in sorted(v):
            d = dict(v)
            del d[k]
            yield d
        for k in sorted(v):
            for y in shrink_value(v[k]):
                d = dict(v)
                d[k] = y
                yield d
            if k != b'a' and b'a' not in v:
                d = dict(v)
                d[b'a'] = d.pop(k)
                yield d
    elif isinstance(v, bytes):
        if len(v) > 1:
            yield v[:len(v) // 2]
            yield v[len(v) // 2:]
            for i in range(len(v)):
                yield v[:i] + v[i + 1:]
        elif v and v != b'a':
            yield b'a'
    elif isinstance(v, bool):
        pass
    elif isinstance(v, int):
        if v not in (0, 1):
            yield 1
            yield v // 2
    elif isinstance(v, float):
        if v != 0.5:
            yield 0.5
            yield float('%.3g' % v)


def shrink_unexplained(binary, case, route, rounds=40):
    cur = case
    for _ in range(rounds):
        cands = []
        for v2 in shrink_value(cur['value']):
            cands.append({'value': v2, 'lua': luaval.lua_literal(v2)})
            if len(cands) >= 120:
                break
        if not cands:
            break
        nxt = None
        for c, (obs, crash, notes) in zip(cands, run_cases(binary, cands)):
            if route in judge(c, obs, crash):
                nxt = c
                break
        if nxt is None:
            break
        cur = nxt
    return cur


def shape(v):
    if isinstance(v, bool): return 'bool'
    if isinstance(v, bytes): return 'str%d' % min(len(v), 3)
    if isinstance(v, int): return 'int'
    if isinstance(v, float): return 'real'
    if isinstance(v, list): return 'arr%d(%s)' % (min(len(v), 11), ','.join(sorted(set(shape(x) for x in v)))[:40])
    if isinstance(v, dict): return 'map%d(%s)' % (min(len(v), 3), ','.join(sorted(set(shape(x) for x in v.values())))[:40])


# ------------------------------------------------------------------------------------------------ value job
def gen_case(rng, i, maxarr):
    r = rng.random()
    if i % 2 == 0:
        clean = set(luaval.FEATURES)
    else:
        clean = set(f for f in luaval.FEATURES if rng.random() < 0.65)
    if r < 0.03:     # expressions made of digits, dots and minus signs only
        a, b = rng.randint(0, 99), rng.randint(0, 99)
        txt = rng.choice(['%d-%d' % (a, b), '%d-%d-%d' % (a, b, rng.randint(0, 9)), '%d.5-%d' % (a, b), '-%d-%d' % (a, b), '%d-.5' % a])
        val = eval(txt.replace('-.5', '-0.5'))
        return {'value': val, 'lua': txt, 'expr_only': True}
    v = luaval.gen_value(rng, clean, depth=rng.choice([1, 2, 3, 4]), maxarr=maxarr)
    return {'value': v, 'lua': luaval.lua_literal(v, rng)}


def case_jsonable(c):
    j = {'kind': 'value', 'value': luaval.to_jsonable(c['value']), 'lua': c['lua']}
    if c.get('expr_only'):
        j['expr_only'] = True
    return j


def case_from_jsonable(j):
    c = {'value': luaval.from_jsonable(j['value']), 'lua': j['lua']}
    if j.get('expr_only'):
        c['expr_only'] = True
    return c


def nontrivial_value(v):
    """non-trivial: a container, or a string that is empty / number-like / Lua-like / non-printable, or a non-integer or large number"""
    if isinstance(v, (list, dict)):
        return True
    if isinstance(v, bytes):
        return (not v) or luaval.parse_number(v.decode('latin-1').strip()) is not None or any(c < 32 or c > 126 or c in b'\'"\\[]{}.=-' for c in v) or v in (b'nil', b'true', b'false', b'end')
    if isinstance(v, float):
        return True
    if isinstance(v, int) and not isinstance(v, bool):
        return abs(v) > 10 ** 6
    return False


def value_job(args):
    binary, seed, n, maxarr = args
    rng = random.Random(seed)
    cases = [gen_case(rng, i, maxarr) for i in range(n)]
    res = run_cases(binary, cases)
    fails, failing, nt, trips, ok_trips = [], [], set(), 0, 0
    route_count = collections.Counter()
    for c, (obs, crash, notes) in zip(cases, res):
        if notes:
            fails.append(('harness-note:' + re.sub(r'[^\w]+', '-', notes[0])[:40], dict(case_jsonable(c), notes=notes), notes[0], luaval.size(c['value'])))
        bad = judge(c, obs, crash)
        n_routes = sum(1 for r in obs if not (c.get('expr_only') and GROUP[r] != 'via-expr'))
        trips += n_routes
        ok_trips += n_routes - len([r for r in bad if r in obs])
        for r in obs:
            route_count[r] += 1
        if nontrivial_value(c['value']):
            nt.add(hashlib.md5(repr(luaval.to_jsonable(c['value'])).encode()).hexdigest())
        if bad:
            failing.append((c, bad))
    classified, unexplained = classify(binary, failing)
    for key, c, route, msg in classified:
        fails.append((key, dict(case_jsonable(c), route=route), '%s: %s (value %s)' % (route, msg, luaval.show(c['value'], 80)), luaval.size(c['value'])))
    seen = set()
    for c, route, what, msg in unexplained:
        sig = (route, what, shape(c['value']))
        if sig in seen or len(seen) >= 6:
            fails.append(('unexplained:%s:%s' % (GROUP[route], what), dict(case_jsonable(c), route=route), '%s: %s' % (route, msg), luaval.size(c['value'])))
            continue
        seen.add(sig)
        m = shrink_unexplained(binary, c, route) if not c.get('expr_only') else c
        fails.append(('unexplained:%s:%s:%s' % (GROUP[route], what, shape(m['value'])), dict(case_jsonable(m), route=route, shrunk_from=case_jsonable(c) if luaval.size(c['value']) < 30 else None),
                      '%s: %s (minimal value %s)' % (route, msg, luaval.show(m['value'], 80)), luaval.size(m['value'])))
    samples = [{'part': 'value', 'lua': c['lua'][:160], 'routes': sorted(res[i][0]) if res[i][0] else None} for i, c in enumerate(cases[:2])]
    return {'n': len(cases), 'trips': trips, 'ok_trips': ok_trips, 'fails': fails, 'nt': nt, 'samples': samples, 'routes': dict(route_count)}


# ------------------------------------------------------------------------------------------------ system variables
SYSVARS = ['_event', '_sessionid', '_name', '_ioprocessors', '_invokers']


def sysvar_chart(attempt_xml, data_xml=''):
    """s1 --try--> s2 takes a harmless transition (reference), s2 --try--> s3 executes the attempt; both events are identical"""
    return ('<scxml xmlns="%s" version="1.0" datamodel="lua" name="machine" initial="s1">'
            '<datamodel><data id="arr" expr="{7}"/><data id="dummy" expr="0"/>%s</datamodel>'
            '<state id="s1"><transition event="try" target="s2"><assign location="dummy" expr="1"/></transition></state>'
            '<state id="s2"><transition event="try" target="s3">%s</transition></state>'
            '<state id="s3"/>'
            '</scxml>') % (NS, data_xml, attempt_xml)


def sysvar_cases(rng):
    """(form, var, attempt element, optional <data> element). Each is chart code that tries to change a system variable."""
    hv = rng.choice(["'hacked'", '42', '{1,2}', 'true', "'%d'" % rng.randint(0, 10 ** 6)])
    cases = []
    for var in SYSVARS:
        cases.append(('assign-whole', var, '<assign location="%s" expr="%s"/>' % (var, xesc(hv)), ''))
        cases.append(('data-init', var, '<assign location="dummy" expr="2"/>', '<data id="%s" expr="%s"/>' % (var, xesc(hv))))
        cases.append(('foreach-item', var, '<foreach array="arr" item="%s"><assign location="dummy" expr="3"/></foreach>' % var, ''))
        cases.append(('foreach-index', var, '<foreach array="arr" item="dummy" index="%s"><assign location="dummy" expr="3"/></foreach>' % var, ''))
        # the same location written with white space around it (attribute values are not normalised by the XML parser for CDATA attributes)
        ws = rng.choice([' ', '  ', '&#10;', '&#9;', ' &#10; '])
        cases.append(('assign-whole-with-whitespace', var, '<assign location="%s%s%s" expr="%s"/>' % (ws, var, rng.choice(['', ' ']), xesc(hv)), ''))
        cases.append(('script', var, '<script>%s = %s</script>' % (var, xesc(hv)), ''))
        cases.append(('send-idlocation', var, '<send event="x" idlocation="%s"/>' % var, ''))
    fld = rng.choice(['name', 'type', 'data', 'sendid'])
    cases.append(('assign-field', '_event', '<assign location="_event.%s" expr="%s"/>' % (fld, xesc(hv)), ''))
    cases.append(('assign-field', '_event', '<assign location="_event.data.k" expr="%s"/>' % xesc(hv), ''))
    cases.append(('assign-field', '_event', '<assign location="_event.added%d" expr="%s"/>' % (rng.randint(0, 99), xesc(hv)), ''))
    cases.append(('assign-field', '_ioprocessors', '<assign location="_ioprocessors.scxml" expr="%s"/>' % xesc(hv), ''))
    cases.append(('assign-field', '_ioprocessors', '<assign location="_ioprocessors[\'http://www.w3.org/TR/scxml/#SCXMLEventProcessor\'].location" expr="%s"/>' % xesc(hv), ''))
    cases.append(('assign-field', '_invokers', '<assign location="_invokers.x%d" expr="%s"/>' % (rng.randint(0, 99), xesc(hv)), ''))
    cases.append(('assign-field', '_name', '<assign location="_name.x" expr="%s"/>' % xesc(hv), ''))
    cases.append(('assign-field', '_sessionid', '<assign location="_sessionid.x" expr="%s"/>' % xesc(hv), ''))
    return cases


def sysvar_lines(cid, attempt, data_xml):
    ev = dtree.enc_event(api_event(b'try', data=dtree.M({b'k': dtree.S(b'payload')})))
    L = ['BEGIN %s %s' % (cid, dtree.hx(sysvar_chart(attempt, data_xml).encode())), 'RUN', 'SESSION']
    L += ['RECV ' + ev, 'STEP'] + ['EVAL ' + dtree.hx(v.encode()) for v in SYSVARS]       # reference: same event, harmless transition
    L += ['RUN', 'RECV ' + ev, 'STEP'] + ['EVAL ' + dtree.hx(v.encode()) for v in SYSVARS]  # attempt
    L += ['RUN', 'END']
    return L


def parse_sysvar_block(block):
    evals, events, session, phase = [], [[], [], []], None, 0
    for ln in block:
        t = ln.split(' ')
        if t[0] == 'V':
            evals.append(dtree.dec(t, 1)[0][:4])
        elif t[0] in ('VT', 'VX'):
            evals.append(None)
        elif t[0] == 'S':
            session = (dtree.unhx(t[1]), dtree.unhx(t[2]))
        elif t[0] == 'E':
            ev, _ = dtree.dec_event(t, 1)
            if ev['name'] == b'try':
                phase += 1
            events[min(phase, 2)].append(ev['name'])
    return evals, events, session


def without_session(n, sid):
    """Data tree with the session id replaced by a placeholder (so that the variables of two sessions can be compared)"""
    return (n[0], n[1].replace(sid, b'<sessionid>') if sid else n[1], [without_session(c, sid) for c in n[2]], {k: without_session(c, sid) for k, c in n[3].items()})


def judge_sysvar(form, var, block, control):
    """control: the same document without any attempt, run in its own session. -> list of (key, msg).
    Expected values: for attempts inside the second 'try' transition, what the variables held after the identical first 'try' event
    (same session); for <data id=..> (executed at initialisation, before anything can be sampled) the values of the control session."""
    evals, events, session = parse_sysvar_block(block)
    cevals, cevents, csession = parse_sysvar_block(control)
    n = len(SYSVARS)
    if len(evals) != 2 * n or session is None or len(cevals) != 2 * n or csession is None or None in cevals:
        return [('sysvar:harness', 'unexpected answer block: %d/%d evals' % (len(evals), len(cevals)))]
    cref = dict(zip(SYSVARS, [without_session(x, csession[0]) for x in cevals[n:]]))
    if luaval.denote(cref['_name']) != b'machine' or luaval.denote(cref['_sessionid']) != b'<sessionid>' or not cref['_ioprocessors'][3] or b'error.execution' in cevents[0] + cevents[1] + cevents[2]:
        return [('sysvar:harness', 'control session does not show the platform values: %s' % {k: dtree.show(v, 40) for k, v in cref.items()})]
    if None in evals:
        return [('sysvar:%s:eval-threw' % form, 'reading a system variable back threw')]
    ref = dict(zip(SYSVARS, [without_session(x, session[0]) for x in evals[:n]]))
    att = dict(zip(SYSVARS, [without_session(x, session[0]) for x in evals[n:]]))
    expected = cref if form == 'data-init' else ref
    changed = [v for v in SYSVARS if dtree.first_diff(expected[v], att[v]) is not None]
    err_seen = b'error.execution' in (events[2] if form != 'data-init' else events[0] + events[1] + events[2])
    problems = []
    if changed:
        problems.append('changed')
    if not err_seen:
        problems.append('no-error')
    if not problems:
        return []
    side = [v for v in changed if v != var]
    key = 'sysvar:%s:%s' % (form, '+'.join(problems)) + (':also-' + '-'.join(side) if side else '')
    return [(key, '%s of %s: %s; expected %s, afterwards %s; events after the attempt: %s' % (
        form, var, ' and '.join({'changed': 'the variable changed', 'no-error': 'no error.execution was raised'}[p] for p in problems),
        dtree.show(expected[var], 70), dtree.show(att[var], 70), [e.decode('latin-1') for e in events[2]]))]


CONTROL = ('<assign location="dummy" expr="2"/>', '')


def sysvar_part(chk, binary):
    cases = sysvar_cases(chk.rng)
    blocks = [sysvar_lines('ctl', *CONTROL)] + [sysvar_lines('s%d' % i, c[2], c[3]) for i, c in enumerate(cases)]
    res = run_blocks(binary, blocks)
    if res[0][1]:
        raise Inconclusive('control session of the system-variable part died: %s' % (res[0][1],))
    control = res[0][0]
    fails = collections.defaultdict(list)
    refused = 0
    for c, (block, crash) in zip(cases, res[1:]):
        chk.count()
        chk.nontrivial(('sysvar', c[0], c[1], c[2]))
        case = {'kind': 'sysvar', 'form': c[0], 'var': c[1], 'attempt': c[2], 'data': c[3]}
        if crash:
            fails['sysvar:crash:' + crash['kind']].append((case, crash['sig']))
            continue
        js = judge_sysvar(c[0], c[1], block, control)
        refused += not js
        for key, msg in js:
            fails[key].append((case, msg))
    chk.add('sysvar_attempts', len(cases))
    chk.add('sysvar_attempts_refused_cleanly', refused)
    chk.sample({'part': 'sysvar', 'form': cases[0][0], 'var': cases[0][1], 'attempt': cases[0][2]}, limit=9)
    chk.sample({'part': 'sysvar', 'form': cases[-3][0], 'var': cases[-3][1], 'attempt': cases[-3][2]}, limit=9)
    for key, fl in sorted(fails.items()):
        chk.report(key, dict(fl[0][0], count=len(fl), variables=sorted(set(f[0]['var'] for f in fl))), '%s (%d attempts, variables %s)' % (fl[0][1], len(fl), sorted(set(f[0]['var'] for f in fl))), n=len(fl))


# ------------------------------------------------------------------------------------------------ single cases
def run_case(binary, case):
    if case['kind'] == 'sysvar':
        (control, ccrash), (block, crash) = run_blocks(binary, [sysvar_lines('ctl', *CONTROL), sysvar_lines('r', case['attempt'], case.get('data', ''))])
        if crash or ccrash:
            return [('sysvar:crash:' + (crash or ccrash)['kind'], (crash or ccrash)['sig'])]
        return judge_sysvar(case['form'], case['var'], block, control)
    c = case_from_jsonable(case)
    (obs, crash, notes), = run_cases(binary, [c])
    bad = judge(c, obs, crash)
    if case.get('route') and not crash:
        bad = {r: x for r, x in bad.items() if r == case['route']}
    if not bad:
        return []
    classified, unexplained = classify(binary, [(c, bad)])
    return sorted(set([(k, '%s: %s' % (r, m)) for k, _, r, m in classified] + [('unexplained:%s:%s' % (GROUP[r], w), '%s: %s' % (r, m)) for _, r, w, m in unexplained]))


def check_witnesses(chk, binary):
    for key, (wit, text) in sorted(chk.known.by_prop.get(PROP, {}).items()):
        p = os.path.join(common.VERIF, wit) if wit else None
        if not p or not os.path.exists(p):
            continue
        for attempt in range(3):      # symptoms that depend on uninitialised memory (empty-map-key) do not show in every run
            got = run_case(binary, json.load(open(p))['case'])
            if key in [k for k, _ in got]:
                break
        chk.count()
        if key in [k for k, _ in got]:
            chk.report(key, {}, '', n=1)
        else:
            print('STALE-FINDING: property=%s %s: witness %s no longer fails with this key (now: %s)' % (PROP, key, wit, [k for k, _ in got] or 'passes'))


def main(tier, replay):
    if replay:
        # before Check() is constructed: its constructor empties /verif/replay/<ID>/, which is where the file usually lives
        case = json.load(open(replay))['case']
        common.build('asan')
        binary = common.harness('vlua', 'asan')
        got = run_case(binary, case)
        for k, m in got:
            print('still fails: key=%s %s' % (k, m[:300]))
        if not got:
            print('case passes')
        sys.exit(1 if got else 0)
    chk = Check(PROP, tier)
    load_part(chk)
    chk.rule = ('values: seeded random values of the domain {strings over bytes 1..255 incl. empty, number-like ("5", "1e3", "0x10"), Lua-like ("nil", "1+1", "a..b", "]]", quotes); '
                'integers and reals (<=12 significant digits; some beyond 2^53 / needing 17 digits); booleans; arrays (some with >=10 elements); maps with non-numeric keys '
                '(identifiers, keywords, blanks, quotes, non-ASCII, empty); nesting up to 4; empty containers}, half of them generated without the triggers of listed findings. '
                'Each value runs through one document exercising 14 routes + 3 payload observations (see module doc); every route ends in evalAsData and is compared by denotation '
                '(numbers exactly as rationals, strings byte-wise, arrays in order, maps key-wise; "5" is not 5; VERBATIM/INTERPRETED and 5 vs 5.0 are not compared). '
                'evaluations = round trips judged (+ system-variable attempts + witnesses). distinct_nontrivial = distinct values that are containers, reals, large integers or strings that '
                'are empty/number-like/contain quotes, brackets, dots, minus or non-printable bytes, + distinct system-variable attempts. '
                'system variables: %d forms of chart code (assign whole, assign field, <data id>, foreach item, foreach index, script, send idlocation) x 5 variables; the value of all five variables is read '
                'after an identical event with a harmless transition and after the attempt, and error.execution must be among the events processed after the attempt.') % 7
    chk.assumptions = ['values handed over as uscxml::Data (dm-assign, dm-init, receive) exclude empty containers because Data cannot express them apart from "no value"',
                       'inline <data>/<content> text is written as a Lua literal (the Lua datamodel evaluates text children as Lua, JSON text is not promised by the statement)',
                       'strings are written into documents as Lua literals with decimal escapes, so XML never carries raw control or non-ASCII bytes',
                       'nil, maps with numeric or number-like keys, mixed tables, NUL bytes, inf/nan are not generated (outside "represented unambiguously")',
                       'all sends are immediate and to the session itself; no delayed events, no invoke, no HTTP',
                       'an empty container read back as "no value"/empty Data counts as equal (Data has no other representation)']
    common.build('asan')
    binary = common.harness('vlua', 'asan')
    if tier == 'quick':
        n_val, chunk, maxarr = 12000, 250, 14
    else:
        n_val, chunk, maxarr = 100000, 1000, 40
    jobs = [(binary, chk.rng.getrandbits(48), min(chunk, n_val - i), maxarr) for i in range(0, n_val, chunk)]
    results = common.pmap(value_job, jobs, workers=WORKERS)
    sysvar_part(chk, binary)
    check_witnesses(chk, binary)
    fails = collections.defaultdict(list)
    routes = collections.Counter()
    for r in results:
        chk.count(r['trips'])
        chk.add('values', r['n'])
        chk.add('round_trips', r['trips'])
        chk.add('round_trips_equal', r['ok_trips'])
        routes.update(r['routes'])
        for h in r['nt']:
            chk.nontrivial(h)
        for s in r['samples']:
            chk.sample(s, limit=9)
        for f in r['fails']:
            fails[f[0]].append(f)
    chk.add('round_trips_per_route', dict(routes))
    for key, fl in sorted(fails.items()):
        fl.sort(key=lambda f: (f[3], json.dumps(f[1], sort_keys=True)))
        k, case, msg, _ = fl[0]
        chk.report(key, dict(case, count=len(fl)), '%s (%d cases)' % (msg, len(fl)), n=len(fl))
    chk.min_distinct = 300 if tier == 'quick' else 5000
    chk.exhaustive = False
    chk.finish()


if __name__ == '__main__':
    common.main_wrapper(main)
