"""C11 - Invoked sessions start, communicate and stop as specified.

Parent/child chart pairs from a parameterised template (child finishing early, late or never; parent leaving the invoking
state early, late or never, re-entering it, or entering and leaving it within one macrostep; one or two children;
autoforward; finalize) are run by the threaded driver (vthr, mode timers) in ThreadSanitizer and AddressSanitizer builds,
with seeded yields/sleeps and forced schedules at the USCXML_VERIF schedule points. The monitor is copied to the invoked
sessions; every record carries a global sequence number, so the offline checker decides on the recorded history:

 start/stop     an invoke is started exactly once at the end of a macrostep that leaves its state active, never otherwise,
                and cancelled exactly once when the state is exited (or the parent ends)
 done.invoke    at most once per invocation; never if the child did not reach its final state; exactly once if it did
                and was not cancelled concurrently
 silence        no record of a child's thread after the cancellation (afterUninvoking) returned
 routing/order  child->parent (#_parent), parent->child (#_<id>) and autoforwarded events arrive exactly once, in send
                order, at the addressed session only; complete when the receiver was neither finished nor cancelled
 finalize       ran before the child's event was matched (guard on the value finalize assigns)
 deadlock       watchdog (with gdb stacks), ThreadSanitizer reports with a frame in the anchored files
"""
import os, sys, json, collections, random, re, tempfile
from vf import common, thr
from vf.common import Check

ANCHORS = ['USCXMLInvoker.cpp', 'USCXMLInvoker.h', 'Invoker.cpp', 'InvokerImpl.h', 'SCXMLIOProcessor.cpp', 'InterpreterImpl.cpp', 'InterpreterImpl.h',
           'BasicContentExecutor.cpp', 'LargeMicroStep.cpp', 'FastMicroStep.cpp', 'BasicEventQueue.cpp', 'BasicDelayedEventQueue.cpp', 'Interpreter.cpp']
BYE = 1000


def child_xml(p, cid):
    """child: sends c(n=1..NC) to #_parent every Tc ms, optionally finishes after Dc ms; logs what it receives; says bye in onexit"""
    fin = '<send event="finish" delay="%dms"/>' % p['Dc'][cid] if p['Dc'][cid] is not None else ''
    return '''<scxml xmlns="http://www.w3.org/2005/07/scxml" version="1.0" datamodel="lua" initial="a" name="child_%(cid)s">
        <datamodel><data id="i" expr="0"/><data id="me" expr="'unset'"/></datamodel>
        <state id="a">
          <onentry><log label="hello" expr="me"/><send event="go" delay="%(Tc)dms"/>%(fin)s</onentry>
          <transition event="go" cond="i &lt; %(NC)d"><assign location="i" expr="i + 1"/>
            <send target="#_parent" event="c"><param name="n" expr="i"/></send>
            <if cond="i == 2"><send target="#_parent" event="q"><param name="n" expr="4242"/></send></if><send event="go" delay="%(Tc)dms"/></transition>
          <transition event="p"><log label="cp" expr="me .. ' ' .. _event.data.n"/></transition>
          <transition event="fwd"><log label="cf" expr="me .. ' ' .. _event.name"/></transition>
          <transition event="c" cond="_event.invokeid ~= nil"><log label="ce" expr="me .. ' ' .. _event.invokeid .. ' ' .. _event.data.n"/></transition>
          <transition event="finish" target="cfin"/>
          <onexit><send target="#_parent" event="c"><param name="n" expr="%(bye)d"/></send></onexit>
        </state>
        <final id="cfin"/>
      </scxml>''' % {'cid': cid, 'Tc': p['Tc'], 'NC': p['NC'], 'fin': fin, 'bye': BYE}


def parent_xml(p):
    kids = p['kids']
    inv = ''
    for cid in kids:
        one = '''<invoke type="scxml" id="%s"%s><param name="me" expr="'%s'"/>
      <content>%s</content>
      <finalize><assign location="fin" expr="_event.data.n"/></finalize></invoke>\n''' % (cid, ' autoforward="true"' if p['af'] else '', cid, child_xml(p, cid))
        # par: every invoke lives in its own region of the parallel state s0 (invocations in several active states)
        inv += ('<state id="r_%s">%s</state>\n' % (cid, one)) if p.get('par') else one
    if p.get('broken'):
        # an invocation that cannot be started (no such invoker) next to the healthy ones: they are started once and stopped once all the same
        bad = '<invoke type="http://example.com/no-such-invoker" id="broken"/>\n'
        if p.get('par'): bad = '<state id="r_broken">%s</state>\n' % bad
        inv = (bad + inv) if p['broken'] == 'first' else (inv + bad)
    leave = '<send event="leave" delay="%dms"/>' % p['Dp'] if p['Dp'] is not None else ''
    flash = '<if cond="visits == 1"><raise event="flash"/></if>' if p['flash'] else ''
    again = '<if cond="visits &lt; %d"><send event="again" delay="%dms"/></if>' % (p['revisit'] + 1 + (1 if p['flash'] else 0), p['Da']) if (p['revisit'] or p['flash']) else ''
    ondone = ('<transition event="done.invoke.c1" target="s1"><log label="pd" expr="_event.name"/></transition>' if p['leave_on_done']
              else '<transition event="done.invoke"><log label="pd" expr="_event.name"/></transition>')
    bounce = '<send event="bounce" delay="%dms"/>' % p['Db'] if p.get('Db') is not None else ''
    return '''<scxml xmlns="http://www.w3.org/2005/07/scxml" version="1.0" datamodel="lua" initial="s0" name="parent">
  <datamodel><data id="fin" expr="0"/><data id="k" expr="0"/><data id="visits" expr="0"/><data id="bounced" expr="0"/></datamodel>
  <%(s0kind)s id="s0">
    <onentry><assign location="visits" expr="visits + 1"/><assign location="k" expr="0"/>%(flash)s%(leave)s<if cond="bounced == 0">%(bounce)s</if><send event="tick" delay="%(T)dms"/></onentry>
    %(exitsend)s
    %(inv)s
    <transition event="flash" target="s1"/>
    <transition event="error.communication"><log label="ERRCOMM" expr="'in-s0'"/></transition>
    <transition cond="fin == 4242"><log label="EAF" expr="fin"/><assign location="fin" expr="0"/></transition>
    <transition event="bounce" target="s0"><assign location="bounced" expr="1"/></transition>
    <transition event="c" cond="fin == _event.data.n"><log label="pc" expr="_event.invokeid .. ' ' .. _event.data.n"/></transition>
    <transition event="c"><log label="FINALIZE-LATE" expr="_event.invokeid .. ' ' .. _event.data.n"/></transition>
    <transition event="tick" cond="k &lt; %(NP)d"><assign location="k" expr="k + 1"/>
      <send target="#_%(to)s" event="p"><param name="n" expr="k"/></send><send event="tick" delay="%(T)dms"/></transition>
    %(ondone)s
    <transition event="leave" target="%(leaveto)s"/>
  </%(s0kind)s>
  <final id="pfin"/>
  <state id="s1">
    <onentry><log label="in-s1" expr="visits"/>%(again)s</onentry>
    <transition event="error.communication"><log label="ERRCOMM" expr="'in-s1'"/></transition>
    <transition event="c"><log label="pc" expr="_event.invokeid .. ' ' .. _event.data.n"/></transition>
    <transition event="done.invoke"><log label="pd" expr="_event.name"/></transition>
    <transition event="again" target="s0"/>
  </state>
</scxml>''' % {'inv': inv, 'leave': leave, 'flash': flash, 'again': again, 'ondone': ondone, 'T': p['T'], 'NP': p['NP'], 'to': p.get('to', kids[0]), 'bounce': bounce,
       's0kind': 'parallel' if p.get('par') else 'state', 'leaveto': 'pfin' if p.get('final_on_leave') else 's1',
       # the exit handler of the invoking state talks to its own invocation: that runs before the invocation is cancelled (App. D exitStates)
       'exitsend': ('<onexit><send target="#_%s" event="farewell"/></onexit>' % kids[0]) if p.get('exitsend') else ''}


def gen_params(rng):
    # the second child is sometimes called 'Parent': '#_Parent' addresses that invocation, only the lower-case '#_parent' is the special term
    kids = ['c1'] if rng.random() < 0.6 else ['c1', rng.choice(['c2', 'c2', 'Parent'])]
    p = {'kids': kids, 'Tc': rng.choice([1, 2, 5, 11]), 'T': rng.choice([1, 3, 7]), 'NC': rng.choice([3, 8, 20]), 'NP': rng.choice([3, 8, 20]),
         'Dc': {c: rng.choice([None, None, 0, 3, 15, 40, 80]) for c in kids},
         'Dp': rng.choice([None, None, 0, 2, 15, 40, 80]), 'af': rng.random() < 0.5, 'flash': rng.random() < 0.25,
         'revisit': rng.choice([0, 0, 1, 2]), 'Da': rng.choice([1, 5, 20]), 'leave_on_done': rng.random() < 0.4,
         'fwd': rng.choice([0, 10, 30]), 'fwdms': rng.choice([1, 3, 7])}
    if p['Dp'] is None and not p['leave_on_done']: p['revisit'] = 0
    p['to'] = rng.choice(kids)                                # the child the parent's p events are addressed to
    p['par'] = len(kids) == 2 and rng.random() < 0.5          # one invoking region per child
    p['Db'] = rng.choice([None, None, 1, 10, 30])             # the invoking state is left and re-entered by one transition after Db ms
    p['final_on_leave'] = p['Dp'] is not None and rng.random() < 0.3   # leaving the invoking state ends the parent (top-level final)
    p['broken'] = rng.choice([None, None, None, 'first', 'last'])
    p['exitsend'] = (not p['par']) and rng.random() < 0.4
    return p


SCRIPTS = [
    '',
    # child finished on its own, waits before looking at _isActive until the parent began to stop it
    'inv.run.predone:wait:STOP:150,inv.stop.entry:set:STOP',
    # parent stops while the child is about to report: stop waits (bounded) for the child to reach predone
    'inv.stop.entry:wait:PRE:100,inv.run.predone:set:PRE',
    # stop has reset the flags and cancelled; hold the join until the child reached predone
    'inv.stop.prejoin:wait:PRE:100,inv.run.predone:set:PRE',
    # the invoking thread dwells right after it started the child's thread: the child runs (and may finish) before invoke() has returned
    'inv.start.done:sleep:8000*', 'inv.start.done:sleep:8000*',
    'inv.stop.prejoin:sleep:3000*', 'inv.run.predone:sleep:5000*', 'inv.stop.entry:sleep:2000*',
    'beq.enqueue.pre:sleep:300*', 'deq.timer.unlocked:sleep:500*',
]


def analyse(recs, p):
    """-> list of (key, detail)"""
    bad = []
    recs = sorted([(r[0], r[1], r[2], r[3], r[4].replace('"', '') if r[3] == 'L' else r[4]) for r in recs], key=lambda r: r[0])
    kids = p['kids']
    # --- parent session id = the first session that reports anything
    psid = None
    for r in recs:
        if r[3] in ('MB', 'NB', 'E'): psid = r[4].split(' ')[0]; break
    if psid is None: return [('no-parent-activity', {})], {}
    par = [r for r in recs if r[2] == 'stepper']
    # --- invocations: per id list of dicts(ib, ia, ub, ua) from the parent's records
    invs = collections.defaultdict(list)
    active = False; invoked = {c: False for c in kids}; ended = False; pending_cancel = set(); expect_eaf = None
    exits_without_invocation = 0
    for r in par:
        k, a = r[3], r[4].split(' ')
        if k == 'NB' and a[0] == psid and a[1] == 's0': active = True
        elif k == 'XB' and a[0] == psid and a[1] == 's0':
            active = False
            if not invoked.get(kids[0]): exits_without_invocation += 1      # left before the invocation was started (same macrostep): nobody to talk to
            pending_cancel |= set(c for c in kids if invoked[c])     # exiting the state must cancel what runs, also when the state is re-entered at once
        elif k == 'E' and a[0] == psid:
            if expect_eaf is not None: bad.append(('eventless-transition-not-re-examined-after-finalize', {'event_seq': expect_eaf})); expect_eaf = None
            # q matches no transition; <finalize> has just set fin = 4242, which enables the eventless transition of s0
            if a[1] == 'q' and active and invoked.get(a[3]): expect_eaf = r[0]
        elif k == 'L' and a[0].startswith('EAF'): expect_eaf = None
        elif k == 'KA' and a[0] == psid:
            for c in kids:
                if invoked[c]: bad.append(('parent-finished-but-invoke-not-cancelled', {'id': c, 'seq': r[0]}))
        elif k == 'IB' and a[0] == psid:
            c = a[1]
            if not active: bad.append(('invoke-started-while-state-inactive', {'id': c, 'seq': r[0]}))
            if invoked.get(c): bad.append(('invoke-started-twice', {'id': c, 'seq': r[0]}))
            invoked[c] = True; invs[c].append({'ib': r[0], 'ia': None, 'ub': None, 'ua': None})
        elif k == 'IA' and a[0] == psid and invs[a[1]]: invs[a[1]][-1]['ia'] = r[0]
        elif k == 'UB' and a[0] == psid:
            c = a[1]
            if not invoked.get(c): bad.append(('cancelled-but-not-running', {'id': c, 'seq': r[0]}))
            else: invs[c][-1]['ub'] = r[0]
            invoked[c] = False; pending_cancel.discard(c)
        elif k == 'UA' and a[0] == psid and invs[a[1]]: invs[a[1]][-1]['ua'] = r[0]
        elif k == 'S' and a[0] == psid:
            if expect_eaf is not None: bad.append(('eventless-transition-not-re-examined-after-finalize', {'event_seq': expect_eaf})); expect_eaf = None
            for c in kids:
                if active and not invoked[c]: bad.append(('macrostep-ended-with-state-active-but-invoke-not-started', {'id': c, 'seq': r[0]}))
                if c in pending_cancel: bad.append(('state-exited-but-invoke-not-cancelled', {'id': c, 'seq': r[0], 'state_active_again': active}))
            pending_cancel.clear()
        elif k == 'DESTROY' and a[0] == 'end': ended = True
    destroyed = max([r[0] for r in par if r[3] == 'DESTROY' and r[4] == 'end'] or [None])
    complete = lambda: ended and not parent_finished      # completeness rules need a parent that processed everything it was sent before quiescence
    parent_finished = any(r[3] == 'KB' and r[4].split(' ')[0] == psid for r in par)   # reached its top-level final: what is still queued is never processed
    endseq = min([r[0] for r in par if r[3] == 'END'] or [float('inf')])      # the driver observed quiescence here; what follows is tear-down
    # --- child threads: thread -> (id, ordinal) through the hello log
    hello = collections.defaultdict(list)
    for r in recs:
        if r[3] == 'L' and r[4].startswith('hello: ') and r[2] != 'stepper':
            hello[r[4][7:].strip()].append((r[0], r[2]))
    thread_of = {}
    for c in kids:
        hs = sorted(hello.get(c, []))
        # k-th hello of id c belongs to the first invocation started before it and not yet matched
        j = 0
        for iv in invs[c]:
            iv['thread'] = None
            if j < len(hs) and hs[j][0] > iv['ib'] and (iv['ua'] is None or hs[j][0] < iv['ua']):
                iv['thread'] = hs[j][1]; thread_of[hs[j][1]] = (c, iv); j += 1
    by_thread = collections.defaultdict(list)
    for r in recs:
        if r[2] in thread_of: by_thread[r[2]].append(r)
    stats = {'invocations': sum(len(v) for v in invs.values()), 'children_seen': len(thread_of), 'done_invoke': 0, 'c_events': 0, 'p_events': 0, 'fwd_events': 0,
             'cancelled_children': 0, 'finished_children': 0, 'overlaps': 0}
    # parent's view: events processed, logs
    pE = [(r[0], r[4].split(' ')) for r in par if r[3] == 'E' and r[4].split(' ')[0] == psid]
    pL = [(r[0], r[4]) for r in par if r[3] == 'L']
    for s, l in pL:
        if l.startswith('FINALIZE-LATE'): bad.append(('event-matched-before-finalize-ran', {'log': l, 'seq': s}))
    for c in kids:
        for n, iv in enumerate(invs[c]):
            t = iv.get('thread')
            rs = by_thread.get(t, [])
            fin = [r[0] for r in rs if r[3] == 'NB' and r[4].endswith(' cfin')]
            finished = bool(fin)
            cancelled = iv['ub'] is not None
            # the child decides to report (flag _isActive) right after the inv.run.predone point; it did so before the cancellation began iff
            # its thread shows the enqueue point of the done event before beforeUninvoking. Likewise for its farewell event (sent in onexit of a)
            pre = [r[0] for r in rs if r[3] == 'H' and r[4] == 'inv.run.predone']
            enq = [r[0] for r in rs if r[3] == 'H' and r[4] == 'beq.enqueue.pre' and pre and r[0] > pre[0]]
            overlap = finished and cancelled and not (enq and enq[0] < iv['ub'])
            xa = [r[0] for r in rs if r[3] == 'XB' and r[4].endswith(' a')]
            byesent = [r[0] for r in rs if r[3] == 'CA' and ' send c' in r[4] and xa and r[0] > xa[0]]
            iv['bye_definite'] = finished and (not cancelled or (byesent and byesent[0] < iv['ub']))
            if finished: stats['finished_children'] += 1
            if cancelled: stats['cancelled_children'] += 1
            if overlap: stats['overlaps'] += 1
            # a cancelled session still leaves its states (onexit handlers) and completes before the cancellation returns
            if iv['ua'] is not None and t is not None and not any(r[3] == 'KA' and r[0] < iv['ua'] for r in rs):
                bad.append(('cancelled-child-never-completed', {'id': c, 'exited_state_a': bool([r for r in rs if r[3] == 'XB' and r[4].endswith(' a')]), 'records': len(rs)}))
            # silence after cancellation returned
            if iv['ua'] is not None:
                late = [r for r in rs if r[0] > iv['ua']]
                if late: bad.append(('child-active-after-cancellation-returned', {'id': c, 'first': list(late[0]), 'count': len(late), 'ua': iv['ua']}))
            elif destroyed is not None:
                late = [r for r in rs if r[0] > destroyed]
                if late: bad.append(('child-active-after-parent-was-destroyed', {'id': c, 'first': list(late[0]), 'count': len(late)}))
            iv['finished'] = finished; iv['cancelled'] = cancelled; iv['overlap'] = overlap
        total_done = sum(1 for s, a in pE if a[1] == 'done.invoke.' + c)
        stats['done_invoke'] += total_done
        may = sum(1 for iv in invs[c] if iv['finished'])
        # exactly once per child that finished on its own before any cancellation; optional when completion and cancellation overlapped
        definite = sum(1 for iv in invs[c] if iv['finished'] and (not iv['cancelled'] or not iv['overlap']))
        if total_done > may: bad.append(('done.invoke-without-finished-child-or-twice', {'id': c, 'processed': total_done, 'children_that_finished': may}))
        if complete() and total_done < definite and not p.get('_destroy_early'):
            # the parent may end (quiescence) only after the done event was delivered; it is lost otherwise
            bad.append(('done.invoke-lost', {'id': c, 'processed': total_done, 'children_that_finished_uncancelled': definite}))
        # child -> parent: per invocation the numbers must be 1..m (+ bye last, only from a child that reached its final state)
        got = [(s, int(l.split(' ')[2])) for s, l in pL if l.startswith('pc: ' + c + ' ')]
        stats['c_events'] += len(got)
        seqs = []; cur = []
        for s, n in got:
            if n == 1 and cur: seqs.append(cur); cur = []
            cur.append(n)
            if n == BYE: seqs.append(cur); cur = []
        if cur: seqs.append(cur)
        for q in seqs:
            body = [n for n in q if n != BYE]
            if body != list(range(1, len(body) + 1)) or (BYE in q and q[-1] != BYE) or q.count(BYE) > 1:
                bad.append(('child-to-parent-events-out-of-order-or-duplicated', {'id': c, 'observed': q[:40]}))
        byes = sum(q.count(BYE) for q in seqs)
        if byes > may: bad.append(('event-of-cancelled-child-reached-parent', {'id': c, 'bye_events': byes, 'children_that_finished': may}))
        bdef = sum(1 for iv in invs[c] if iv['bye_definite'])
        if complete() and byes < bdef: bad.append(('child-to-parent-event-lost', {'id': c, 'bye_events': byes, 'children_whose_farewell_was_sent_before_cancellation': bdef}))
        # completeness for a child that was never cancelled nor finished: all NC events arrive
        for iv in invs[c]:
            if complete() and not iv['finished'] and not iv['cancelled'] and iv.get('thread'):
                sent = sum(1 for r in by_thread[iv['thread']] if r[3] == 'CA' and ' send c' in r[4] and r[0] < endseq)
                mine = [n for s, n in got if s > iv['ib'] and n != BYE]
                if len(mine) < sent: bad.append(('child-to-parent-event-lost', {'id': c, 'sent': sent, 'received': len(mine)}))
    # parent -> child (#_<id>): the addressed child only; others must never see p
    for t, (c, iv) in thread_of.items():
        cps = [int(r[4].split(' ')[2]) for r in by_thread[t] if r[3] == 'L' and r[4].startswith('cp: ')]
        stats['p_events'] += len(cps)
        if c != p.get('to', kids[0]) and cps: bad.append(('event-delivered-to-wrong-session', {'id': c, 'observed': cps[:10]}))
        if cps != list(range(1, len(cps) + 1)): bad.append(('parent-to-child-events-out-of-order-or-duplicated', {'id': c, 'observed': cps[:40]}))
        if c == p.get('to', kids[0]) and complete() and not iv['finished'] and not iv['cancelled']:
            sent = sum(1 for r in par if r[3] == 'CA' and r[4].split(' ')[0] == psid and ' send p' in r[4] and r[0] > iv['ib'])
            if len(cps) < sent: bad.append(('parent-to-child-event-lost', {'sent': sent, 'received': len(cps)}))
        # autoforward: the fwd.* events the parent processed while this invocation was active, in that order, exactly once
        cfs = [r[4].split(' ')[2] for r in by_thread[t] if r[3] == 'L' and r[4].startswith('cf: ')]
        stats['fwd_events'] += len(cfs)
        if not p['af']:
            if cfs: bad.append(('event-forwarded-without-autoforward', {'id': c, 'observed': cfs[:10]}))
        else:
            # the parent dequeues (and forwards) before beforeProcessingEvent; the window is [afterInvoking, beforeUninvoking]
            win = [a[1] for s, a in pE if a[1].startswith('fwd.') and iv['ia'] is not None and s > iv['ia'] and (iv['ub'] is None or s < iv['ub'])]
            if len(set(cfs)) != len(cfs): bad.append(('autoforwarded-event-duplicated', {'id': c, 'observed': cfs[:40]}))
            it = iter(win)
            if not all(x in it for x in cfs): bad.append(('autoforwarded-events-out-of-order-or-not-from-window', {'id': c, 'child': cfs[:40], 'parent_window': win[:40]}))
            if complete() and not iv['finished'] and not iv['cancelled'] and len(cfs) < len(win):
                bad.append(('autoforwarded-event-lost', {'id': c, 'child': len(cfs), 'parent_window': len(win)}))
            # "every external event": also the ones that came from this very invocation (and went through <finalize>) are forwarded to it
            own = [int(r[4].split(' ')[3]) for r in by_thread[t] if r[3] == 'L' and r[4].startswith('ce: ') and r[4].split(' ')[2] == c]
            mine = [n for sq, n in [(sq, int(l.split(' ')[2])) for sq, l in pL if l.startswith('pc: ' + c + ' ')] if iv['ia'] is not None and sq > iv['ia'] and n != BYE]
            stats['echo_events'] = stats.get('echo_events', 0) + len(own)
            if complete() and not iv['finished'] and not iv['cancelled'] and len(invs[c]) == 1 and len(own) < len(mine):
                bad.append(('autoforward-skips-events-of-the-invocation-itself', {'id': c, 'processed_by_parent': len(mine), 'echoed_to_child': len(own)}))
    if p.get('exitsend'):
        # the exit handler of the invoking state sends to its own invocation: that must work whenever the invocation had been started
        errc = [r[4] for r in recs if r[3] == 'L' and r[4].startswith('ERRCOMM')]
        if len(errc) > exits_without_invocation:
            bad.append(('send-from-exit-handler-to-own-invocation-failed', {'error.communication': len(errc), 'exits_before_the_invocation_was_started': exits_without_invocation}))
    return bad, stats


def one(job):
    flavour, seed, p, yld, engine, script = job
    fd, path = tempfile.mkstemp(prefix='c11-', suffix='.scxml', dir=os.path.join(common.VERIF, '.build', 'tmp'))
    os.write(fd, parent_xml(p).encode()); os.close(fd)
    kw = {'seed': seed, 'yield': yld, 'engine': engine, 'quiet': 700, 'gquiet': 1, 'maxms': 20000, 'fwd': p['fwd'], 'fwdms': p['fwdms']}
    if script: kw['script'] = script
    rec = {'job': job, 'bad': [], 'stats': {}, 'sigs': set(), 'tsan_other': {}}
    try:
        r = thr.run_with_stacks(flavour, 'timers', path, timeout=90, **kw)
    finally:
        os.unlink(path)
    if r['timeout']:
        r2 = None
        rec['bad'].append(('hang', {'stacks': [s[-6000:] for s in r.get('stacks', [])], 'stderr': r['err'][-1500:], 'tail': r['out'][-1500:]})); rec['args'] = r['args']; return rec
    recs = thr.records(r['out'])
    if r['rc'] != 0 and flavour == 'asan':
        rec['bad'].append(('crash:' + (common.sanitizer_summary(r['err']) or 'rc=%s' % r['rc'])[:100], {'stderr': r['err'][-3000:]})); rec['args'] = r['args']; return rec
    if not any(x[3] == 'DESTROY' and x[4] == 'end' for x in recs):
        rec['bad'].append(('driver-did-not-finish:rc=%s' % r['rc'], {'stderr': r['err'][-2000:]})); rec['args'] = r['args']; return rec
    bad, stats = analyse(recs, p)
    rec['bad'] = bad; rec['stats'] = stats
    rec['sigs'] = thr.signatures(recs, ('IB', 'UB'), 6)
    if flavour == 'tsan':
        att, un = thr.tsan_reports(r['err'], ANCHORS)
        rec['tsan_other'] = dict(un)
        for sig, c in att.items(): rec['bad'].append(('tsan:' + sig[:140], {'count': c, 'report': r['err'][:5000]}))
    if rec['bad']: rec['args'] = r['args']; rec['xml'] = parent_xml(p)
    return rec


def main(tier, replay):
    chk = Check('C11', tier)
    common.build('tsan'); common.build('asan')
    common.harness('vthr', 'tsan'); common.harness('vthr', 'asan')
    os.makedirs(os.path.join(common.VERIF, '.build', 'tmp'), exist_ok=True)
    if replay:
        case = json.load(open(replay))['case']
        j = case['job']; rec = one((j[0], j[1], j[2], j[3], j[4], j[5]))
        print(json.dumps(rec['bad'], indent=1)[:4000]); sys.exit(1 if rec['bad'] else 0)
    rng = chk.rng
    runs = 192 if tier == 'quick' else 3000
    jobs = []
    for i in range(runs):
        p = gen_params(rng)
        jobs.append(('tsan' if i % 3 else 'asan', chk.seed * 10000 + i, p, rng.choice([0, 50, 200, 500]), 'large' if i % 2 else 'fast', rng.choice(SCRIPTS)))
    sigs = set(); tot = collections.Counter(); other = collections.Counter(); shapes = set()
    for rec in common.pmap(one, jobs, workers=common.NPROC):
        chk.count()
        for k, v in rec['stats'].items(): tot[k] += v
        sigs |= rec['sigs']
        for k, v in rec['tsan_other'].items(): other[k] += v
        p = rec['job'][2]
        if not rec['bad'] and rec['stats'].get('children_seen'):
            chk.nontrivial(json.dumps([p, rec['job'][4], rec['job'][5]], sort_keys=True))
            shapes.add((len(p['kids']), p['af'], p['flash'], p['revisit'], p['Dp'] is None, tuple(sorted(str(v) for v in p['Dc'].values()))))
        for key, det in rec['bad']:
            chk.report(key, {'job': list(rec['job']), 'detail': det, 'args': rec.get('args'), 'xml': rec.get('xml')}, 'job seed=%s engine=%s script=%s: %s' % (rec['job'][1], rec['job'][4], rec['job'][5], key))
        if not rec['bad'] and len(chk.samples) < 4 and rec['stats'].get('done_invoke'):
            chk.sample({'flavour': rec['job'][0], 'engine': rec['job'][4], 'script': rec['job'][5], 'parameters': p, 'observed': rec['stats']})
    chk.add('totals', dict(tot)); chk.add('distinct_interleaving_signatures', len(sigs)); chk.add('distinct_parameter_shapes', len(shapes))
    chk.add('tsan_reports_outside_anchored_files', dict(other))
    for k, need in (('invocations', runs), ('cancelled_children', runs // 4), ('finished_children', runs // 4), ('done_invoke', runs // 8), ('c_events', runs), ('p_events', runs), ('fwd_events', runs // 4)):
        if tot[k] < need: chk.inconc('only %d %s observed (< %d)' % (tot[k], k, need))
    chk.rule = ('each run = one parent/child chart pair from the template (1-2 children, child finishing after Dc in {never,0..80ms}, parent leaving after Dp in {never,0..80ms} or on done.invoke, '
                'optional re-entry, optional enter-and-leave within one macrostep, autoforward, finalize) x engine x schedule (seeded yields/sleeps or one of %d forced scripts at the USCXML_VERIF points) '
                'in a TSan (2 of 3) or ASan build; offline checker over the merged records of all sessions (global sequence numbers): start/stop bracket rules, done.invoke count, silence after '
                'afterUninvoking, per-route exactly-once/FIFO/completeness, finalize guard, watchdog. distinct_nontrivial = runs without violation in which at least one invoked session was observed' % len(SCRIPTS))
    chk.assumptions = ['interleavings are sampled and forced at the hook sites, not enumerated', 'done.invoke and the farewell event are optional when completion and cancellation of a child overlap in the recorded order',
                       'TSan reports are attributed only when a frame lies in the anchored files; others are listed, not judged']
    chk.min_distinct = 20
    chk.finish()


if __name__ == '__main__':
    common.main_wrapper(main)
