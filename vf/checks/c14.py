"""C14 - Serialized state resumes to identical behaviour.

For generated documents and histories the interpreter is snapshotted (serialize()) at every stable point k, a fresh
interpreter for the same document deserializes the string, and both are driven with the same continuation; the resumed
trace must equal the original's trace from the snapshot on (events processed, exits/entries/transitions, log values,
configuration, final data). With pending external events in the queue at the snapshot. A state string must be rejected
by an interpreter for a different document.
"""
import os, sys, json, collections, random
from vf import common, chart as C, trace as T, c01lib
from vf.common import Check
from vf.checks.c01 import NONTRIVIAL


def split_at_snapshot(lines):
    """-> (lines of A after the snapshot, lines of B (prefix stripped), info)"""
    a_after = []; b = []; seen = False; info = {}
    for l in lines:
        if l.startswith('B '):
            b.append(l[2:]); continue
        if l.startswith('SER '): seen = True; info['ser'] = l[4:]; continue
        if l.startswith('SERTHROW') or l.startswith('DESERTHROW'): info['throw'] = l; continue
        if seen: a_after.append(l)
    return a_after, b, info


def semantic(lines):
    """callback/log records that constitute behaviour (step() result codes of the resume prologue are excluded by the caller)"""
    return [l for l in lines if l[:2] in ('E ', 'MB', 'MA', 'XB', 'XA', 'NB', 'NA', 'TB', 'TA', 'CB', 'CA', 'L ', 'KB', 'KA') or l.startswith(('END ', 'V '))]


def work(job):
    binary, cases = job
    jobs = []; meta = {}
    for cid, seed, dm, eng, pend in cases:
        if seed < 0:
            # families: late binding with local data entered and left repeatedly / history recorded several times
            ch, hist = (C.gen_late_chart, C.gen_hist_chart)[(-seed) % 2](-seed)
            if dm == 'null' and ch.binding == 'late': dm = 'lua'
        else:
            ch, hist = c01lib.make_case(seed, dm)
        ref = c01lib.ref_run(ch, hist, pend)
        if ref.diverged: continue
        xml = C.render(ch, dm)
        flags = ['pending%d' % pend] if pend else []
        nstable = 1 + len(hist)          # upper bound on stable points that matter
        for k in range(1, min(nstable, 7) + 1):
            jid = '%s:k%d' % (cid, k)
            jobs.append((jid, T.job_text(jid, eng, xml, hist, flags=flags, snap=k)))
            meta[jid] = (cid, k, ch, hist, dm, eng, pend, xml, False)
        jid = '%s:foreign' % cid
        jobs.append((jid, T.job_text(jid, eng, xml, hist, flags=flags + ['foreign'], snap=1)))
        meta[jid] = (cid, 1, ch, hist, dm, eng, pend, xml, True)
    raw = T.run_jobs(binary, jobs)
    out = []
    for jid, (cid, k, ch, hist, dm, eng, pend, xml, foreign) in meta.items():
        r = raw.get(jid, {'lines': [], 'crash': 'no result', 'timeout': False})
        rec = {'id': jid, 'v': 'ok', 'hash': '%s:%s:%d' % (C.chart_hash(ch), eng, k), 'nontrivial': bool(ch.features() & NONTRIVIAL), 'foreign': foreign}
        rep = {'xml': xml, 'history': hist, 'engine': eng, 'datamodel': dm, 'snapshot_at_stable_point': k, 'pending': pend}
        if r['timeout']: rec['v'] = 'timeout'; out.append(rec); continue
        if r['crash']:
            key = 'crash:' + str(r['crash'])[:90]
            ser = [l for l in r['lines'] if l.startswith('SER ')]
            if dm == 'promela' and ser and 'PromelaDataModel::evaluateExpr' in (r.get('stderr') or '') and __import__('re').search(r'":\s*-\d', ser[0]):
                key = 'promela-resume-negative-value-crashes'      # the unary-minus defect of the promela datamodel (C17) hit by re-initialising a negative value
            rec['v'] = 'bad'; rec['k'] = key; rep['stderr'] = r.get('stderr'); rec['replay'] = rep; out.append(rec); continue
        lines = [l for l in r['lines'] if l and not l.startswith('[')]
        a_after, b, info = split_at_snapshot(lines)
        if 'ser' not in info and 'throw' not in info:
            rec['v'] = 'nosnap'; out.append(rec); continue       # fewer stable points than k
        if foreign:
            if not info.get('throw', '').startswith('DESERTHROW'):
                rec['v'] = 'bad'; rec['k'] = 'foreign-state-accepted'; rec['replay'] = rep
            out.append(rec); continue
        if 'throw' in info:
            rec['v'] = 'bad'; rec['k'] = 'snapshot-or-resume-throws:' + info['throw'].split(' ')[0]; rep['thrown'] = info['throw'][:300]; rec['replay'] = rep; out.append(rec); continue
        if any(l.startswith('STEPCAP') for l in lines): rec['v'] = 'diverged'; out.append(rec); continue
        declared = set(ch.data) | set(n for st in ch.doc for n, _ in st.data)
        keepv = lambda x: [l for l in x if not l.startswith('V ') or l.split(' ')[1] in declared]
        sa, sb = keepv(semantic(a_after)), keepv(semantic(b))
        # the resumed interpreter reports its (already stable) configuration once more before the first event: drop B's prologue up to the first event
        def from_first_event(x):
            for i, l in enumerate(x):
                if l.startswith('E '): return x[i:]
            return [l for l in x if l.startswith(('END ', 'V '))]
        sa2, sb2 = from_first_event(sa), from_first_event(sb)
        rec['compared'] = len(sa2)
        if sa2 != sb2:
            i = 0
            while i < min(len(sa2), len(sb2)) and sa2[i] == sb2[i]: i += 1
            la = sa2[i] if i < len(sa2) else 'END-OF-TRACE'; lb = sb2[i] if i < len(sb2) else 'END-OF-TRACE'
            kind = la.split(' ')[0] + '/' + lb.split(' ')[0]
            key = 'resumed-trace-differs:' + kind
            if la.startswith('V ') and lb.startswith('V '):
                key = 'resumed-data-differs'
                late = set(n for st in ch.doc for n, _ in st.data)
                if la.split(' ')[1] in late and la.split(' ')[2] in ('false', 'nil', 'ERR'):
                    key = 'resumed-data-differs:late-bound-variable-not-yet-initialised'
            elif la.startswith('END') and lb.startswith('END'): key = 'resumed-final-configuration-differs'
            elif i == 0 and la.startswith('E ') and (lb.startswith(('END', 'V ')) or lb == 'END-OF-TRACE'): key = 'pending-external-events-lost'
            hs = [q for q in ch.doc if q.kind == 'history']
            if hs and not key.startswith(('pending', 'resumed-data')):
                key += ':document-with-history'
            rep.update({'first_difference': i, 'original': sa2[max(0, i - 4):i + 4], 'resumed': sb2[max(0, i - 4):i + 4], 'state': info.get('ser', '')[:1500]})
            rec['v'] = 'bad'; rec['k'] = key; rec['replay'] = rep
        out.append(rec)
    return out


DELAYED = '''<scxml xmlns="http://www.w3.org/2005/07/scxml" version="1.0" datamodel="%(dm)s">
<state id="a"><onentry><send event="dly1" delay="%(d1)dms"/><send event="dly2" delay="%(d2)dms"/></onentry><transition event="go" target="b"/></state>
<state id="b"><transition event="dly1" target="c"><log label="GOT1" expr="1"/></transition><transition event="dly2" target="d"><log label="GOT2" expr="2"/></transition></state>
<state id="c"><transition event="dly2" target="d"><log label="GOT2" expr="2"/></transition></state><state id="d"/></scxml>'''


# a pending send that the continuation cancels by its id, and one addressed to the internal queue: both need the send id / target to survive the snapshot
DELAYED2 = '''<scxml xmlns="http://www.w3.org/2005/07/scxml" version="1.0" datamodel="%(dm)s">
<state id="a"><onentry><send event="dly1" delay="%(d1)dms"/><send id="sx" event="dlyX" delay="%(dx)dms"/><send event="dly2" delay="%(d2)dms" target="#_internal"/></onentry><transition event="go" target="b"/></state>
<state id="b"><onentry><cancel sendid="sx"/></onentry><transition event="dlyX" target="bad"><log label="CANCELLED-EVENT-ARRIVED" expr="0"/></transition>
<transition event="dly1" target="c"><log label="GOT1" expr="1"/></transition><transition event="dly2" target="d"><log label="GOT2" expr="2"/></transition></state>
<state id="c"><transition event="dlyX" target="bad"><log label="CANCELLED-EVENT-ARRIVED" expr="0"/></transition><transition event="dly2" target="d"><log label="GOT2" expr="2"/></transition></state><state id="d"/><state id="bad"/></scxml>'''


def delayed_work(job):
    binary, cid, dm, eng, d1, d2, k = job
    xml = (DELAYED if int(cid[2:]) % 2 == 0 else DELAYED2) % {'dm': dm, 'd1': d1, 'd2': d2, 'dx': (d1 + d2) // 2}
    raw = T.run_jobs(binary, [(cid, T.job_text(cid, eng, xml, ['go'], flags=['drain', 'novars', 'lateresume'], snap=k))], timeout_per_job=60)
    r = raw[cid]
    lines = [l for l in r['lines'] if l and not l.startswith('[')]
    a_after, b, info = split_at_snapshot(lines)
    sel = lambda x: [l for l in x if l[:2] in ('E ', 'L ') or l.startswith('END ')]
    sa, sb = sel(a_after), sel(b)
    rec = {'id': cid, 'v': 'ok', 'compared': len(sa)}
    rep = {'xml': xml, 'history': ['go'], 'engine': eng, 'datamodel': dm, 'snapshot_at_stable_point': k, 'pending': 0, 'original': sa, 'resumed': sb, 'state': info.get('ser', '')[:1200]}
    if r['crash'] or r['timeout']:
        rec['v'] = 'bad'; rec['k'] = 'delayed:crash-or-hang:' + str(r['crash'])[:60]; rep['stderr'] = r.get('stderr'); rec['replay'] = rep
    elif sa != sb:
        lost = [l for l in sa if l.startswith('E dly') and l not in sb]
        rec['v'] = 'bad'; rec['k'] = 'pending-delayed-events-lost' if lost else 'delayed:resumed-trace-differs'; rec['replay'] = rep
    return rec


# snapshot taken while delayed events are just becoming due (the timer thread fires during serialize()): each must arrive exactly once after
# the resume - whether the snapshot caught it in the delay queue or already in the external queue
DUE = '''<scxml xmlns="http://www.w3.org/2005/07/scxml" version="1.0" datamodel="%(dm)s">
<state id="a"><onentry>%(sends)s</onentry><transition event="dly"/></state></scxml>'''


def due_work(job):
    binary, cid, dm, eng, d, offs, wait = job
    xml = DUE % {'dm': dm, 'sends': ''.join('<send event="dly.%d" delay="%dms"/>' % (i, d + o) for i, o in enumerate(offs))}
    raw = T.run_jobs(binary, [(cid, T.job_text(cid, eng, xml, [], flags=['drain', 'novars', 'lateresume', 'snapwait:%d' % wait], snap=1))], timeout_per_job=60)
    r = raw[cid]
    lines = [l for l in r['lines'] if l and not l.startswith('[')]
    a_after, b, info = split_at_snapshot(lines)
    ev = lambda x: sorted(l.split(' ')[1] for l in x if l.startswith('E dly.'))
    sa, sb = ev(a_after), ev(b)
    want = sorted('dly.%d' % i for i in range(len(offs)))
    rec = {'id': cid, 'v': 'ok', 'compared': len(sa)}
    rep = {'xml': xml, 'history': [], 'engine': eng, 'datamodel': dm, 'snapshot_at_stable_point': 1, 'snapshot_ms_after_start': wait, 'original_after_snapshot': sa, 'resumed': sb, 'state': info.get('ser', '')[:1500]}
    if r['timeout']:
        rec['v'] = 'bad'; rec['k'] = 'serialize-while-timers-fire:hang'; rep['stderr'] = r.get('stderr'); rec['replay'] = rep
    elif r['crash']:
        rec['v'] = 'bad'; rec['k'] = 'serialize-while-timers-fire:crash:' + str(r['crash'])[:60]; rep['stderr'] = r.get('stderr'); rec['replay'] = rep
    elif sa != want:
        rec['v'] = 'skip'       # the original itself processed some of them before the snapshot point (machine too slow): nothing to compare
    elif sb != want:
        rec['v'] = 'bad'; rec['k'] = 'pending-delayed-events-lost:snapshot-while-due' if len(sb) < len(want) else 'pending-delayed-events-duplicated:snapshot-while-due'; rec['replay'] = rep
    return rec


def due_part(chk, binary, n):
    rng = chk.rng
    jobs = []
    for i in range(n):
        d = rng.randint(25, 60)
        jobs.append((binary, 'du%d' % i, ('lua', 'promela', 'null')[i % 3], ('large', 'fast')[(i // 3) % 2], d, [-4, -2, -1, 0, 0, 1, 2, 4], d - rng.randint(0, 2)))
    ok = 0
    for rec in common.pmap(due_work, jobs, workers=max(2, common.NPROC // 2)):
        chk.count()
        if rec['v'] == 'bad': chk.report(rec['k'], rec['replay'], '%s %s' % (rec['id'], rec['k']))
        elif rec['v'] == 'ok': ok += 1; chk.nontrivial('due:' + rec['id'])
    chk.add('snapshots_while_timers_fire', n); chk.add('snapshots_while_timers_fire_compared', ok)
    if ok < n // 3: chk.inconc('only %d of %d snapshot-while-due runs were comparable' % (ok, n))


def final_work(job):
    """snapshot of a session that has finished (serialize() accepts that state): the resumed session is finished as well - step() says so at
    once and nothing is entered, exited or completed a second time"""
    binary, seeds = job
    jobs = []; meta = {}
    for sd in seeds:
        rng = random.Random(sd)
        dm = ('lua', 'promela', 'null')[sd % 3]; eng = ('large', 'fast')[(sd // 3) % 2]
        ch, hist = c01lib.make_case(sd, dm)
        # make sure it ends: a top-level final reached from everywhere on the last event
        fin = C.St('zfin', 'final', ch.root); ch.root.children.append(fin); fin.onexit.append([('log', 'XZ', None)])
        for st in ch.root.states():
            if st.kind != 'final': st.trans.insert(0, C.Tr(st, ['quit'], None, ['zfin'], False, []))
        ch.reindex()
        jid = 'fz%d' % sd
        jobs.append((jid, T.job_text(jid, eng, C.render(ch, dm), hist[:3] + ['quit'], flags=['novars', 'snapfinal'])))
        meta[jid] = (C.render(ch, dm), hist[:3] + ['quit'], eng, dm)
    raw = T.run_jobs(binary, jobs)
    out = []
    for jid, (xml, hist, eng, dm) in meta.items():
        r = raw.get(jid, {'lines': [], 'crash': 'no result', 'timeout': False})
        rec = {'id': jid, 'v': 'skip'}
        rep = {'xml': xml, 'history': hist, 'engine': eng, 'datamodel': dm}
        lines = r['lines']
        if r['crash'] or r['timeout']:
            rec['v'] = 'bad'; rec['k'] = 'resume-of-finished-session:crash-or-hang'; rep['stderr'] = r.get('stderr'); rec['replay'] = rep
        elif any(l.startswith('B RESUMED') for l in lines):
            b = [l[2:] for l in lines if l.startswith('B ')]
            res = [l for l in b if l.startswith('R ')]
            acts = [l for l in b if l[:2] in ('MB', 'NB', 'XB', 'TB', 'KB', 'L ', 'E ')]
            rec['v'] = 'ok'
            if any(x != 'R -1' for x in res) or acts:
                rec['v'] = 'bad'; rec['k'] = 'resumed-from-finished-session-is-not-finished'; rep['resumed'] = b[:20]; rec['replay'] = rep
        out.append(rec)
    return out


def final_part(chk, binary, n):
    base = chk.seed * 1000000 + 141400
    ok = 0
    for out in common.pmap(final_work, [(binary, list(range(base + i, base + min(i + 20, n)))) for i in range(0, n, 20)]):
        for rec in out:
            chk.count()
            if rec['v'] == 'bad': chk.report(rec['k'], rec['replay'], '%s %s' % (rec['id'], rec['k']))
            elif rec['v'] == 'ok': ok += 1; chk.nontrivial('final:' + rec['id'])
    chk.add('snapshots_of_finished_sessions', ok)


def delayed_part(chk, binary, n):
    rng = chk.rng
    jobs = [(binary, 'dl%d' % i, ('lua', 'promela')[(i // 2) % 2], ('large', 'fast')[(i // 4) % 2], rng.randint(350, 600), rng.randint(700, 900), 1 + i % 2) for i in range(n)]
    for rec in common.pmap(delayed_work, jobs):
        chk.count()
        if rec['v'] == 'bad': chk.report(rec['k'], rec['replay'], '%s %s' % (rec['id'], rec['k']))
        else: chk.nontrivial('delayed:' + rec['id'])
    chk.add('delayed_event_round_trips', n)


def main(tier, replay):
    chk = Check('C14', tier)
    common.build('asan')
    binary = common.harness('vdrv', 'asan')
    if replay:
        case = json.load(open(replay))['case']
        jid = 'r'
        raw = T.run_jobs(binary, [(jid, T.job_text(jid, case['engine'], case['xml'], case['history'], flags=(['pending%d' % case['pending']] if case.get('pending') else []), snap=case['snapshot_at_stable_point']))])
        print('\n'.join(raw[jid]['lines'])[:6000]); sys.exit(0)
    n = 600 if tier == 'quick' else 10000
    base = chk.seed * 1000000 + 1414
    cases = []
    for i in range(n):
        cases.append(('s%d' % i, base + i, ('lua', 'promela', 'lua', 'null')[i % 4], ('large', 'fast')[i % 2], (0, 0, 1, 2)[(i // 2) % 4]))
    for i in range(n // 5):
        cases.append(('f%d' % i, -(base + 700000 + i), ('lua', 'promela', 'lua', 'null')[i % 4], ('large', 'fast')[(i // 2) % 2], (0, 1)[(i // 4) % 2]))
    jobs = [(binary, cases[i:i + 12]) for i in range(0, len(cases), 12)]
    verd = collections.Counter(); compared = 0
    for out in common.pmap(work, jobs):
        for rec in out:
            if rec['v'] == 'nosnap': continue
            chk.count(); verd[rec['v'] + (':foreign' if rec['foreign'] else '')] += 1
            compared += rec.get('compared', 0)
            if rec['v'] == 'timeout': chk.inconc('timeout ' + rec['id']); continue
            if rec['v'] == 'diverged': continue
            if rec['nontrivial'] and rec.get('compared', 0) > 3: chk.nontrivial(rec['hash'])
            if rec['v'] == 'bad': chk.report(rec['k'], rec['replay'], '%s %s' % (rec['id'], rec['k']))
            elif len(chk.samples) < 4 and rec.get('compared', 0) > 10:
                chk.sample({'case': rec['id'], 'records_compared_after_resume': rec['compared']})
    delayed_part(chk, binary, 16 if tier == 'quick' else 200)
    due_part(chk, binary, 60 if tier == 'quick' else 1500)
    final_part(chk, binary, 120 if tier == 'quick' else 3000)
    chk.add('verdicts', dict(verd)); chk.add('records_compared_after_resume', compared)
    chk.rule = ('each round trip = (document, history, engine, stable point k): serialize() at the k-th stable point (all k up to 7, with 0-2 external events still queued), deserialize() into a fresh interpreter for the '
                'same document, drive both with the same continuation and compare every callback/log record from the first processed event on plus final configuration and data; one extra job per document checks that a '
                'document differing by one comment rejects the state. distinct_nontrivial = distinct (document, engine, k) with >3 compared records using parallel/history/targetless/internal/multi-target/raise')
    chk.assumptions = ['the resume prologue of the fresh interpreter (step results before the first event) is not compared', 'delayed events and invokers are covered in the thorough tier only where noted']
    chk.min_distinct = 50
    chk.finish()


if __name__ == '__main__':
    common.main_wrapper(main)
