"""C12, behavioural subjects: which transition of a one-state chart is taken for an event.

 engines  : both micro-step engines, events delivered from outside (vdrv)
 promela  : the emitted Promela model under spin simulation (descriptors resolved at transform time through the event trie)
 vhdl     : the emitted VHDL equations evaluated by the netlist evaluator (descriptors resolved to event_<name>_sig inputs)

One state m with K targetless transitions, each with a descriptor list; the expected transition for an event name is the
first one in document order whose list matches by vf.match.ref_match. For the closed back-ends the chart raises the names itself.
"""
import os, random, json, shutil, collections, re
from vf import common, chart as C, match, c01lib, xform, vhdl_eval, tables

TOK = ['a', 'b', 'ab', 'c']          # VHDL identifiers are case-insensitive: no case variants here (the direct part covers case)


def gen_case(rng, ndesc=5, nnames=8):
    def nm(k): return '.'.join(rng.choice(TOK) for _ in range(rng.randint(1, k)))
    names = []
    while len(names) < nnames:
        n = nm(3)
        if n not in names: names.append(n)
    descs = []
    for i in range(ndesc):
        ds = []
        for _ in range(rng.randint(1, 2)):
            r = rng.random()
            if r < 0.06: d = '*'
            elif r < 0.7:
                nt = rng.choice(names).split('.'); d = '.'.join(nt[:rng.randint(1, len(nt))])
                if rng.random() < 0.2: d = d + rng.choice('abc')          # character prefix, not a token prefix
            else: d = nm(3)
            if d != '*':
                r = rng.random()
                if r < 0.3: d += '.*'
                elif r < 0.4: d += '.'
            ds.append(d)
        descs.append(ds)
    if rng.random() < 0.35:
        # two (descriptor, name) pairs whose texts concatenate to the same string although only one of them matches ('ab'+'ab' / 'aba'+'b'):
        # a session that answers from what it answered before must still tell them apart
        pfx = rng.choice(TOK); q = 'ab'
        d1, n1, d2, n2 = pfx, q, pfx + q[0], q[1:]
        for n_ in ((n1, n2) if rng.random() < 0.5 else (n2, n1)):
            if n_ in names: names.remove(n_)
            names.insert(rng.randint(0, len(names)), n_)
        i = rng.randint(0, len(descs)); descs.insert(i, [d1]); descs.insert(rng.randint(0, len(descs)), [d2])
    return descs, names


def escape_macro(s):
    """uscxml::escapeMacro: non-identifier characters encoded in place as _xHH_"""
    out = ''
    for c in s:
        if c.isalnum() and c.isascii() or c == '_': out += c
        else:
            if out and not out.endswith('_'): out += '_'
            out += 'x%02X_' % ord(c)
    if s and not (s[-1].isalnum() or s[-1] == '_'): out = out.rstrip('_') or out
    return out


def build_chart(descs, names, closed):
    root = C.St('root', 'scxml'); m = C.St('m', 'state', root); root.children.append(m)
    for i, ds in enumerate(descs):
        m.trans.append(C.Tr(m, list(ds), None, [], False, [('log', 'T%d' % i, None)]))
    if closed:
        m.onentry.append([('raise', n) for n in names])
    return C.Chart(root)


def expected(descs, names):
    out = []
    for n in names:
        hit = None
        for i, ds in enumerate(descs):
            if match.ref_match(' '.join(ds), n): hit = i; break
        out.append((n, hit))
    return out


def classify(desc_lists, name, got, exp):
    """finding key from the descriptor that decides the expected answer"""
    if exp is not None and (got is None or got > exp):
        for d in desc_lists[exp]:
            if match.ref_match(d, name):
                if d == '*': return 'not-matched:star-in-list' if len(desc_lists[exp]) > 1 else 'not-matched:star'
                if d.endswith('.*'): return 'not-matched:descriptor-with-dot-star'
                if d.endswith('.'): return 'not-matched:descriptor-with-trailing-dot'
                return 'not-matched:proper-token-prefix' if d != name else 'not-matched:equal-name'
    if got is not None and (exp is None or got < exp):
        return 'matched-but-must-not'
    return 'differs'


def work(job):
    kind, binary, outdir, cases = job
    out = []
    if kind == 'engines':
        run = []
        for cid, descs, names in cases:
            x = C.render(build_chart(descs, names, False), 'null')
            for eng in ('large', 'fast'):
                run.append({'id': cid + ':' + eng, 'xml': x, 'engine': eng, 'hist': names, 'flags': ['novars']})
        res = c01lib.run_batch(binary, run)
        for cid, descs, names in cases:
            exp = expected(descs, names)
            for eng in ('large', 'fast'):
                p = res[cid + ':' + eng]
                if p['crash'] or p['timeout']:
                    out.append((kind + ':' + eng, cid, 'crash', {'descriptors': descs, 'names': names, 'crash': str(p['crash'])[:200]}, 0)); continue
                got = {}
                for s in p['steps']:
                    if s.get('ev') in names:
                        tr = [a[2] for a in s['acts'] if a[0] == 'trans']
                        got[s['ev']] = tr[0] if tr else None
                n = 0
                for name, e in exp:
                    n += 1
                    g = got.get(name, 'missing')
                    if g != e:
                        out.append((kind + ':' + eng, cid, classify(descs, name, None if g == 'missing' else g, e), {'descriptors': descs, 'name': name, 'observed': g, 'expected': e}, 0))
                out.append((kind + ':' + eng, cid, 'ok', None, n))
        return out
    os.makedirs(outdir, exist_ok=True)
    if kind == 'promela':
        from vf.checks import c06
        cases = [(cid, descs, names[:5]) for cid, descs, names in cases]   # more pending events than the model's fixed queue capacity is a known C06 finding
        charts = dict((cid, build_chart(descs, names, True)) for cid, descs, names in cases)
        res = xform.transform_batch(binary, [(cid, 'pml', C.render(ch, 'promela')) for cid, ch in charts.items()], outdir)
        for cid, descs, names in cases:
            r = res.get(cid); ch = charts[cid]
            if not r or r[0] != 'ok':
                out.append((kind, cid, 'transform-failed', {'descriptors': descs, 'names': names, 'info': str(r)[:300]}, 0)); continue
            pml = open(os.path.join(outdir, cid + '.pml'), errors='replace').read()
            evname = c06.event_names(pml)
            rc, so, se, to = common.run_proc(['spin', '-T', '-n1', '-u40000', cid + '.pml'], cwd=outdir, timeout=120)
            if rc is not None and rc < 0 and not to and 'rror:' not in (so or '') + (se or ''):
                out.append((kind, cid, 'ok', None, 0)); continue       # the simulator died from a signal: nothing observed, nothing judged (cf. C06)
            if to or rc != 0 or 'rror:' in (so or '') + (se or ''):
                out.append((kind, cid, 'spin-failed', {'descriptors': descs, 'names': names, 'stderr': ((so or '') + (se or ''))[-400:]}, 0)); continue
            steps, final = c06.parse_spin(so, ch)
            seq = []
            for s in steps:
                if not s['evi']: continue
                tr = [a[2] for a in s['acts'] if a[0] == 'trans']
                seq.append((evname.get(s['evi'], '#%d' % s['evi']), tr[0] if tr else None))
            exp = expected(descs, names)
            n = 0
            if [x[0] for x in seq] != [x[0] for x in exp]:
                out.append((kind, cid, 'event-sequence-differs', {'descriptors': descs, 'names': names, 'observed': seq[:12], 'expected': exp[:12]}, 0))
            else:
                for (name, g), (_, e) in zip(seq, exp):
                    n += 1
                    if g != e: out.append((kind, cid, classify(descs, name, g, e), {'descriptors': descs, 'name': name, 'observed': g, 'expected': e, 'names': names}, 0))
            out.append((kind, cid, 'ok', None, n))
            for f in os.listdir(outdir):
                if f.startswith(cid + '.'):
                    try: os.unlink(os.path.join(outdir, f))
                    except OSError: pass
        return out
    if kind == 'vhdl':
        charts = dict((cid, build_chart(descs, names, True)) for cid, descs, names in cases)
        res = xform.transform_batch(binary, [(cid, 'vhdl', C.render(ch, 'null')) for cid, ch in charts.items()], outdir)
        for cid, descs, names in cases:
            r = res.get(cid); ch = charts[cid]
            if not r or r[0] != 'ok':
                out.append((kind, cid, 'transform-failed', {'descriptors': descs, 'names': names, 'info': str(r)[:300]}, 0)); continue
            text = open(os.path.join(outdir, cid + '.vhdl'), errors='replace').read()
            try:
                net = vhdl_eval.Netlist(text)
            except vhdl_eval.ParseError as e:
                out.append((kind, cid, 'netlist', {'error': str(e)[:200]}, 0)); continue
            nodes, trans, byid = tables.build(ch)
            real = [(i, t) for i, t in enumerate(trans) if not t['pseudo']]
            # every event name the generator knows has an input signal; names are escaped '.' -> '_'
            known = sorted(set(names) | set(d[:-2] if d.endswith('.*') else d[:-1] if d.endswith('.') else d for ds in descs for d in ds if d != '*'))
            sig = dict((n, 'event_%s_sig' % escape_macro(n)) for n in known)
            n = 0
            for name in known:
                # a name no equation mentions: no transition was resolved to it (judged below like any other answer)
                inp = {}
                for nd in nodes: inp['state_active_%d_sig' % nd.idx] = True
                for k, v in sig.items(): inp[v] = (k == name)
                inp['spontaneous_en'] = False
                for x in net.inputs:
                    if x not in inp: inp[x] = False
                val = net.evaluate(inp)
                got = [t['t'].idx for i, t in real if val.get('in_optimal_transition_set_%d_sig' % i)]
                g = got[0] if got else None
                e = expected(descs, [name])[0][1]
                n += 1
                if len(got) > 1: out.append((kind, cid, 'two-transitions-of-one-state-selected', {'descriptors': descs, 'name': name, 'observed': got}, 0))
                elif g != e: out.append((kind, cid, classify(descs, name, g, e), {'descriptors': descs, 'name': name, 'observed': g, 'expected': e}, 0))
            out.append((kind, cid, 'ok', None, n))
            for f in os.listdir(outdir):
                if f.startswith(cid + '.'):
                    try: os.unlink(os.path.join(outdir, f))
                    except OSError: pass
        return out
    return out


def run(chk, tier):
    rng = random.Random(chk.seed * 7919 + 12)
    n = 450 if tier == 'quick' else 4000
    cases = [('m%d' % i, ) + gen_case(rng) for i in range(n)]
    dbin = common.harness('vdrv', 'asan'); xbin = common.harness('vxform', 'asan', transform=True)
    tmp = os.path.join(common.VERIF, '.build', 'tmp', 'c12-%d' % os.getpid())
    jobs = []
    per = 25
    for i in range(0, len(cases), per):
        jobs.append(('engines', dbin, None, cases[i:i + per]))
        jobs.append(('promela', xbin, os.path.join(tmp, 'p%d' % i), cases[i:i + per]))
        jobs.append(('vhdl', xbin, os.path.join(tmp, 'v%d' % i), cases[i:i + per]))
    tot = collections.Counter(); fails = {}
    try:
        for out in common.pmap(work, jobs):
            for subj, cid, key, det, cnt in out:
                if key == 'ok':
                    tot[subj] += cnt; continue
                fails.setdefault('%s:%s' % (subj, key), []).append(det)
    finally:
        shutil.rmtree(tmp, ignore_errors=True)
    chk.count(sum(tot.values()))
    chk.add('behavioural_decisions', dict(tot))
    for subj, c in tot.items():
        if c: chk.nontrivial(('behavioural', subj))
    for key, dets in sorted(fails.items()):
        dets.sort(key=lambda d: len(json.dumps(d)))
        chk.report(key, dict(dets[0], subject=key.split(':')[0], count=len(dets)), '%s (%d cases) e.g. %s' % (key, len(dets), json.dumps(dets[0])[:200]), n=len(dets))
    for s in ('engines:large', 'engines:fast', 'promela', 'vhdl'):
        if tot[s] < n: chk.inconc('behavioural subject %s decided only %d pairs' % (s, tot[s]))
