"""C04 - Generated ANSI-C machine behaves like the interpreted chart.

The real ChartToC output is compiled (gcc, with ASan+UBSan+bounds and again without sanitizers) together with the scaffold
harness/genc_main.c and driven with the same event history as the interpreter (engine large, recorded by vdrv). The projected
histories (dequeued events, log lines with values, configuration after every micro step, final configuration and data)
must be equal; sanitizer reports inside the emitted step function are violations.
"""
import os, sys, json, subprocess, collections, shutil, random
from vf import common, chart as C, trace as T, xform, c01lib, refscxml
from vf.common import Check
from vf.checks.c01 import NONTRIVIAL

SAN = ['-fsanitize=address,undefined,bounds', '-fno-sanitize-recover=all', '-fno-omit-frame-pointer']


def proj_interp(parsed):
    out = []
    for s in parsed['steps']:
        ev = s.get('ev')
        if ev not in (None, '#init', '#completion', '#outside'): out.append(('E', ev))
        for a in s['acts']:
            if a[0] == 'log': out.append(('L', a[1], a[2]))
        if s.get('conf') is not None and not s.get('noop') and ev != '#completion': out.append(('C', tuple(sorted(s['conf']))))
    return out


def proj_ref(ref):
    out = []
    for s in T.ref_steps(ref):
        ev = s.get('ev')
        if ev not in (None, '#init', '#completion'): out.append(('E', ev))
        for a in s['acts']:
            if a[0] == 'log': out.append(('L', a[1], a[2]))
        if s.get('conf') is not None and not s.get('noop') and ev != '#completion': out.append(('C', tuple(sorted(s['conf']))))
    return out


def proj_c(text):
    out = []; final = None; vals = {}; hist = []; stepcap = False; sizes = None
    for ln in text.split('\n'):
        k, _, arg = ln.partition(' ')
        if k == 'E': out.append(('E', arg))
        elif k == 'L':
            lab, sep, val = arg.partition(': ')
            out.append(('L', lab if sep else arg.strip(), val if sep else None))
        elif k == 'C': out.append(('C', tuple(sorted(arg.split()))))
        elif k == 'H': hist.append(tuple(sorted(arg.split())))
        elif k == 'END': final = sorted(arg.split())
        elif k == 'V':
            n, _, v = arg.partition(' '); vals[n] = v
        elif k == 'STEPCAP': stepcap = True
        elif k == 'N': sizes = [int(x) for x in arg.split()]
    return {'proj': out, 'final': final, 'vals': vals, 'hist': hist, 'stepcap': stepcap, 'sizes': sizes}


def pad_chart(ch, rng, target_states):
    """add atomic top-level states (each with one transition) until the machine has exactly target_states states (incl. root)"""
    k = 0
    while len(ch.doc) < target_states:
        k += 1
        s = C.St('p%d' % k, 'state', ch.root)
        s.trans.append(C.Tr(s, [rng.choice(['e1', 'e2', 'zz'])], None, [rng.choice(ch.proper()).id], False, [('log', 'P%d' % k, ('var', 'x') if ch.data else None)]))
        # in front of the generated states in every other machine: nested finals, histories and parallels then have indices beyond the first byte
        if target_states % 2 == 0 or k % 2: ch.root.children.insert(0, s)
        else: ch.root.children.append(s)
        ch.reindex()
    if ch.root.initial_attr is None:
        gen = [c for c in ch.root.states() if not (c.id.startswith('p') and c.id[1:].isdigit())]
        if gen and ch.root.states()[0] is not gen[0] and not ch.root.initial_elem: ch.root.initial_attr = [gen[0].id]
    ch.reindex()
    return ch


def make_case(seed, dm='lua', size=None):
    rng = random.Random(seed)
    if seed < 0:
        ch, hist = (C.gen_done_chart, C.gen_hist_chart, C.gen_conflict_chart, C.gen_multiinit_chart)[seed % 4](-seed)      # done.state / history / conflict / multi-target initial family
    else:
        ch, hist = C.gen_chart(seed, data=True, errors=False, dataexpr=False, rich=True)
        if seed % 5 == 1: C.substring_ids(ch)                     # state ids that are prefixes of one another
    if size: pad_chart(ch, rng, size)
    return ch, hist


def nested_case(seed):
    """A small machine whose first state invokes an inline machine that is larger (more states and transitions, so that the sizing macros of
    the file are those of the nested machine), sometimes with a third machine nested in that one. Returns (xml, history)."""
    rng = random.Random(seed)
    def child(depth):
        ch, _ = C.gen_chart(rng.randint(0, 10 ** 9), data=True, errors=False, dataexpr=False, nstates=rng.choice([8, 10]))
        pad_chart(ch, rng, rng.choice([9, 12, 17, 20, 26, 33, 41]))
        if False and depth < 2:      # a third level is not generated: ChartToC::resortStates recurses three times per DOM level, two levels of nesting take minutes to transform
            host = rng.choice([q for q in ch.proper() if q.kind != 'final'])
            host.extra_xml = ['<invoke type="scxml" id="n%d"><content>%s</content></invoke>' % (depth, child(depth + 1))]
        return C.render(ch, 'lua')
    par, hist = C.gen_chart(seed, data=True, errors=False, dataexpr=False, nstates=4)
    host = par.root.states()[0] if not par.root.initial_attr else par.by_id[par.root.initial_attr[0]]
    if host.kind == 'final': host = [q for q in par.proper() if q.kind != 'final'][0]
    host.extra_xml = ['<invoke type="scxml" id="n0"><content>%s</content></invoke>' % child(1)]
    return C.render(par, 'lua'), hist


def wide_case(seed, nstates, ntrans):
    """Index-type boundaries: a machine with `nstates` states (incl. root) and at least `ntrans` transitions (flat padding around a generated core)."""
    rng = random.Random(seed)
    ch, hist = C.gen_chart(seed, data=True, errors=False, dataexpr=False, nstates=6)
    k = 0
    while len(ch.doc) < nstates:
        k += 1
        s = C.St('w%d' % k, 'state', ch.root); ch.root.children.append(s); ch.reindex()
    k = 0; srcs = [q for q in ch.proper() if q.kind != 'final']
    while len(ch.transitions()) < ntrans:
        k += 1; q = srcs[k % len(srcs)]
        q.trans.append(C.Tr(q, ['zz%d' % k], None, [rng.choice(ch.proper()).id] if k % 3 else [], False, []))
    ch.reindex()
    return ch, hist


def compile_run(cdir, cid, hist, flags, tag, timeout=60):
    binf = os.path.join(cdir, '%s.%s.bin' % (cid, tag))
    cmd = ['gcc', '-std=gnu99', '-g', '-w'] + flags + ['-DCHART_FILE="%s"' % os.path.join(cdir, cid + '.c'), os.path.join(common.VERIF, 'harness', 'genc_main.c'), '-o', binf]
    p = subprocess.run(cmd, capture_output=True, text=True)
    if p.returncode != 0:
        return {'compile_error': p.stderr[-1500:]}
    rc, out, err, to = common.run_proc([binf] + hist, timeout=timeout, env={'ASAN_OPTIONS': 'abort_on_error=1:detect_leaks=0'})
    try: os.unlink(binf)
    except OSError: pass
    return {'rc': rc, 'out': out or '', 'err': err or '', 'timeout': to}


def judge(ch, hist, dm, pi, rc_san, rc_plain):
    """-> list of (key, detail)"""
    bad = []
    for tag, r in (('san', rc_san), ('plain', rc_plain)):
        if 'compile_error' in r: return [('emitted-c-does-not-compile', {'build': tag, 'stderr': r['compile_error']})]
        if r['timeout']: return [('emitted-c-hangs', {'build': tag})]
        if r['rc'] != 0:
            return [('sanitizer:' + (common.sanitizer_summary(r['err']) or 'rc=%s' % r['rc'])[:120], {'build': tag, 'stderr': r['err'][-3000:]})]
    cs, cp = proj_c(rc_san['out']), proj_c(rc_plain['out'])
    if rc_san['out'] != rc_plain['out']:
        bad.append(('sanitized-and-plain-build-differ', {'san': rc_san['out'][-800:], 'plain': rc_plain['out'][-800:]}))
    if cs['stepcap'] or pi['stepcap']: return bad
    a, b = proj_interp(pi), cs['proj']
    same = (a == b)
    if same and pi['final'] is not None and cs['final'] is not None and sorted(pi['final']) != sorted(cs['final']) and pi['results'][-1:] != [-1]:
        same = False
    if same:
        for v in ('x', 'y'):
            if v in cs['vals'] and v in pi['vals'] and pi['vals'][v] not in (cs['vals'][v], cs['vals'][v] + '.0'):
                bad.append(('final-data-differs', {'var': v, 'interpreter': pi['vals'][v], 'c': cs['vals'][v]}))
        return bad
    i = 0
    while i < min(len(a), len(b)) and a[i] == b[i]: i += 1
    det = {'first_difference': i, 'interpreter': a[max(0, i - 4):i + 4], 'c': b[max(0, i - 4):i + 4]}
    # attribution: which side follows which reference?
    rw = refscxml.Ref(ch); rw.interpret(hist)
    rs = refscxml.Ref(ch, ('static_select', 'static_domain')); rs.interpret(hist)
    interp_w3c = (not rw.diverged) and proj_ref(rw) == a
    c_static = (not rs.diverged) and proj_ref(rs) == b
    det['interpreter_equals_w3c_reference'] = interp_w3c; det['c_equals_static_reference'] = c_static
    hs = [q for q in ch.doc if q.kind == 'history']
    nested = any(x is not y and C.is_descendant(y.parent, x.parent) for x in hs for y in hs)
    if c_static and (interp_w3c or (not rw.diverged and refproj_static_domain(ch, hist) == a)):
        bad.append(('static-conflict-selection', det))
    elif nested:
        bad.append(('nested-history', det))
    else:
        kind = a[i][0] if i < len(a) else 'END'
        bad.append(('c-differs-from-interpreter:first-difference-at-%s' % kind, det))
    return bad


def refproj_static_domain(ch, hist):
    r = refscxml.Ref(ch, ('static_domain',)); r.interpret(hist)
    return None if r.diverged else proj_ref(r)


def work(job):
    xbin, dbin, outdir, cases = job
    os.makedirs(outdir, exist_ok=True)
    built = {}; nested = {}
    for cid, seed, size in cases:
        if size == 'nested':
            nested[cid] = nested_case(seed); continue
        if isinstance(size, tuple): ch, hist = wide_case(seed, *size)
        else: ch, hist = make_case(seed, size=size)
        ref = c01lib.ref_run(ch, hist)
        if ref.diverged: continue
        built[cid] = (ch, hist)
    nout = []
    if nested:
        # nested machines: memory safety of every machine in the file under the file's sizing macros (behaviour of invoked sessions is C11's subject)
        resn = xform.transform_batch(xbin, [(cid, 'c', xml) for cid, (xml, hist) in nested.items()], outdir, timeout=900)
        for cid, (xml, hist) in nested.items():
            rec = {'id': cid, 'hash': 'nested:%s' % cid, 'states': xml.count('<state') + xml.count('<parallel') + xml.count('<final'), 'trans': xml.count('<transition'), 'bad': [], 'nontrivial': True, 'nested': True}
            r = resn.get(cid)
            if r and r[0] == 'timeout':
                rec['skip'] = 'transformer took longer than the watchdog (not a C04 matter)'
            elif not r or r[0] != 'ok':
                rec['bad'].append(('transform:' + str(r[1] if r else None)[:100], {'stderr': r[2] if r and len(r) > 2 else None}))
            else:
                for tag, fl in (('san', ['-O1'] + SAN), ('plain', ['-O2'])):
                    rr = compile_run(outdir, cid, hist, fl, tag)
                    if 'compile_error' in rr: rec['bad'].append(('emitted-c-does-not-compile', {'build': tag, 'stderr': rr['compile_error']})); break
                    if rr['timeout']: rec['bad'].append(('emitted-c-hangs', {'build': tag})); break
                    if rr['rc'] != 0:
                        rec['bad'].append(('sanitizer:' + (common.sanitizer_summary(rr['err']) or 'rc=%s' % rr['rc'])[:120], {'build': tag, 'stderr': rr['err'][-3000:]})); break
                    ks = [l.split() for l in rr['out'].split('\n') if l.startswith('K ')]
                    rec['nested_runs'] = len(ks); rec['items'] = sum(int(k[4]) for k in ks)
                    pc = proj_c(rr['out']); rec['sizes'] = pc['sizes']
                if not rec['bad'] and not rec.get('nested_runs'): rec['skip'] = 'the invoking state was never active'
            if rec['bad']: rec['xml'] = xml; rec['history'] = hist
            for f in os.listdir(outdir):
                if f.startswith(cid + '.'):
                    try: os.unlink(os.path.join(outdir, f))
                    except OSError: pass
            nout.append(rec)
    res = xform.transform_batch(xbin, [(cid, 'c', C.render(ch, 'lua')) for cid, (ch, hist) in built.items()], outdir, timeout=900 if any(isinstance(c[2], tuple) for c in cases) else None)
    runs = c01lib.run_batch(dbin, [{'id': cid, 'xml': C.render(ch, 'lua'), 'engine': 'large', 'hist': hist} for cid, (ch, hist) in built.items()])
    out = []
    for cid, (ch, hist) in built.items():
        rec = {'id': cid, 'hash': C.chart_hash(ch) + ':' + ','.join(hist), 'states': len(ch.doc), 'trans': len(ch.transitions()), 'bad': [],
               'nontrivial': bool(ch.features() & NONTRIVIAL)}
        r = res.get(cid)
        if r and r[0] == 'timeout':
            rec['skip'] = 'transformer took longer than the watchdog (not a C04 matter)'
        elif not r or r[0] != 'ok':
            rec['bad'].append(('transform:' + str(r[1] if r else None)[:100], {'stderr': r[2] if r and len(r) > 2 else None}))
        elif runs[cid]['crash'] or runs[cid]['timeout']:
            rec['skip'] = 'interpreter run failed (judged by C01/C07)'
        else:
            rs = compile_run(outdir, cid, hist, ['-O1'] + SAN, 'san')
            rp = compile_run(outdir, cid, hist, ['-O2'], 'plain')
            rec['bad'] = judge(ch, hist, 'lua', runs[cid], rs, rp)
            if 'out' in rs:
                pc = proj_c(rs['out']); rec['items'] = len(pc['proj']); rec['sizes'] = pc['sizes']
                # C02 part: legality of every configuration of the emitted machine
                for it in pc['proj']:
                    if it[0] == 'C':
                        why = C.is_legal_configuration(ch, it[1])
                        if why: rec.setdefault('illegal', []).append((list(it[1]), why))
        if rec['bad'] or rec.get('illegal'): rec['xml'] = C.render(ch, 'lua'); rec['history'] = hist
        for f in os.listdir(outdir):
            if f.startswith(cid + '.'):
                try: os.unlink(os.path.join(outdir, f))
                except OSError: pass
        out.append(rec)
    return out + nout


def run_cases(chk, tier, n, sizes, tag):
    common.build('asan')
    xbin = common.harness('vxform', 'asan', transform=True)
    dbin = common.harness('vdrv', 'asan')
    outroot = common.scratch(tag)
    base = chk.seed * 1000000 + 404
    cases = [('g%d' % i, base + i, None) for i in range(n)]
    cases += [('z%d_%d' % (sz, k), base + 900000 + sz * 10 + k, sz) for sz in sizes for k in range(2)]
    cases += [('d%d' % i, -(base + 700000 + i), None) for i in range(max(16, n // 3))]
    if sizes:
        cases += [('nest%d' % i, base + 600000 + i, 'nested') for i in range(max(10, n // 10))]
        # index types: uint8_t counters at 255/256/257 states (few transitions) and at 255/256/257 transitions (few states)
        wide = [(255, 0), (256, 0), (257, 0), (12, 255), (12, 256), (12, 257)] + ([(256, 256), (300, 40), (40, 300)] if tier != 'quick' else [])
        cases += [('wide%d_%d' % w, base + 650000 + i, w) for i, w in enumerate(wide)]
    slow = [c for c in cases if c[2] == 'nested' or isinstance(c[2], tuple)]; cases = [c for c in cases if c not in slow]
    jobs = [(xbin, dbin, os.path.join(outroot, 's%d' % i), [c]) for i, c in enumerate(slow)]         # slow transformations first, one per job
    jobs += [(xbin, dbin, os.path.join(outroot, 'w%d' % (i // 6)), cases[i:i + 6]) for i in range(0, len(cases), 6)]
    recs = []
    for out in common.pmap(work, jobs): recs += out
    shutil.rmtree(outroot, ignore_errors=True)
    return recs


def delay_work(job):
    """the delay handed to the send callback of the emitted C = the delay the interpreter would wait (CSS2 time: s / ms, fractions, units
    case-insensitive, no unit = ms)"""
    xbin, outdir, seeds = job
    os.makedirs(outdir, exist_ok=True)
    docs = {}
    for sd in seeds:
        rng = random.Random(sd); sends = []
        for i in range(rng.randint(3, 7)):
            ms = rng.choice([1, 5, 50, 250, 500, 1000, 1500, 2000, 2750, 60000])
            form = rng.choice(['%dms' % ms, '%d' % ms, '%gs' % (ms / 1000.0), ('%.3fs' % (ms / 1000.0)), '%dMS' % ms, '%gS' % (ms / 1000.0), ('%.3fs' % (ms / 1000.0)).lstrip('0') if ms < 1000 else '%dms' % ms])
            sends.append(('d%d' % i, form, ms))
        xml = ('<scxml xmlns="http://www.w3.org/2005/07/scxml" version="1.0" datamodel="lua"><state id="a"><onentry>%s</onentry><transition event="d"/></state></scxml>'
               % ''.join('<send event="%s" delay="%s"/>' % (e, f) for e, f, m in sends))
        docs['dl%d' % sd] = (xml, sends)
    res = xform.transform_batch(xbin, [(cid, 'c', xml) for cid, (xml, sends) in docs.items()], outdir)
    out = []
    for cid, (xml, sends) in docs.items():
        rec = {'id': cid, 'bad': [], 'n': 0}
        r = res.get(cid)
        if not r or r[0] != 'ok': rec['skip'] = True; out.append(rec); continue
        rr = compile_run(outdir, cid, [], ['-O1'] + SAN, 'san')
        if 'compile_error' in rr or rr.get('timeout') or rr.get('rc'): rec['skip'] = True; out.append(rec); continue
        got = dict((l.split(' ')[1], int(l.split(' ')[2])) for l in rr['out'].split('\n') if l.startswith('SD '))
        for e, f, ms in sends:
            rec['n'] += 1
            if got.get(e, 0) != ms:
                rec['bad'].append(('send-delay-differs:%s' % ('fraction-of-a-second' if '.' in f else 'upper-case-unit' if f[-1] == 'S' else 'other'), {'xml': xml, 'send': e, 'delay_attribute': f, 'expected_ms': ms, 'emitted_ms': got.get(e, 0)}))
        for fn in os.listdir(outdir):
            if fn.startswith(cid + '.'):
                try: os.unlink(os.path.join(outdir, fn))
                except OSError: pass
        out.append(rec)
    return out


def delay_part(chk, tier):
    xbin = common.harness('vxform', 'asan', transform=True)
    outroot = common.scratch('c04d')
    base = chk.seed * 1000 + 44; n = 24 if tier == 'quick' else 400
    tot = 0
    for out in common.pmap(delay_work, [(xbin, os.path.join(outroot, 'w%d' % (i // 6)), list(range(base + i, base + min(i + 6, n)))) for i in range(0, n, 6)]):
        for rec in out:
            chk.count(); tot += rec['n']
            seen = set()
            for key, det in rec['bad']:
                if key in seen: continue
                seen.add(key); chk.report(key, det, '%s %s' % (rec['id'], key))
    shutil.rmtree(outroot, ignore_errors=True)
    chk.add('send_delays_compared', tot)


def legality_part(chk, tier):
    """used by C02: configurations of emitted C machines"""
    recs = run_cases(chk, tier, 30 if tier == 'quick' else 400, [], 'c02c')
    n = 0
    for rec in recs:
        n += rec.get('items', 0)
        for conf, why in rec.get('illegal', [])[:1]:
            chk.report('emitted-c:illegal-configuration' if 'nested-history' not in [b[0] for b in rec['bad']] else 'emitted-c:nested-history',
                       {'xml': rec['xml'], 'history': rec['history'], 'configuration': conf, 'reason': why}, '%s emitted C: %s' % (rec['id'], why))
    chk.add('emitted_C_machines', len(recs)); chk.add('emitted_C_trace_items', n)


def main(tier, replay):
    chk = Check('C04', tier)
    if replay:
        case = json.load(open(replay))['case']; print(json.dumps(case, indent=1)[:5000]); sys.exit(0)
    sizes = [8, 9, 16, 17, 32, 33] if tier == 'quick' else [7, 8, 9, 15, 16, 17, 24, 25, 31, 32, 33, 63, 64, 65]
    recs = run_cases(chk, tier, 140 if tier == 'quick' else 3000, sizes, 'c04')
    items = 0; skipped = 0; sizeseen = collections.Counter()
    for rec in recs:
        chk.count()
        if rec.get('skip'): skipped += 1; continue
        if rec.get('nested'): chk.add('nested_machine_documents', 1); chk.add('nested_machines_driven', rec.get('nested_runs', 0))
        items += rec.get('items', 0)
        if rec.get('sizes'): sizeseen['states_bytes=%d trans_bytes=%d' % (rec['sizes'][2], rec['sizes'][3])] += 1
        if rec['nontrivial'] and rec.get('items', 0) > 3: chk.nontrivial(rec['hash'])
        for key, det in rec['bad']:
            chk.report(key, {'xml': rec['xml'], 'history': rec['history'], 'detail': det}, '%s %s' % (rec['id'], key))
        if not rec['bad'] and len(chk.samples) < 4 and rec.get('items', 0) > 6:
            chk.sample({'case': rec['id'], 'states': rec['states'], 'transitions': rec['trans'], 'trace_items_compared': rec['items'], 'sizing': rec.get('sizes')})
    chk.add('trace_items_compared', items); chk.add('skipped_interpreter_failures', skipped); chk.add('sizing_macro_classes', dict(sizeseen))
    delay_part(chk, tier)
    chk.rule = ('each case = seeded random document (lua rendering, integer fragment) + history; ChartToC output compiled with the emitted sizing macros, once with -fsanitize=address,undefined,bounds and once '
                'plain -O2; projected history (dequeued events, log lines+values, configuration after each micro step, final configuration/data) compared with the interpreter (engine large); extra documents are '
                'padded to state counts around the byte boundaries of the sizing macros, to 255/256/257 states or transitions (index types), and documents whose first state invokes a larger inline machine (driven inside the scaffold, sanitizers only). distinct_nontrivial = distinct (document, history) using parallel/history/targetless/internal/multi-target/raise with >3 trace items')
    chk.assumptions = ['scaffold harness/genc_main.c implements the callbacks with the integer datamodel fragment and the reference event matcher', 'invoked (nested) machines are driven inside the scaffold for memory safety under the shared sizing macros only; their behaviour is not compared (C11 covers invocation)']
    chk.min_distinct = 40
    chk.finish()


if __name__ == '__main__':
    common.main_wrapper(main)
