"""C09 - Delayed events fire once, not early, in due order, unless cancelled.

Timing charts: K delayed <send>s with random delays/ids and <cancel>s; the monitor timestamps (steady clock) the execution
of every send/cancel and every processed event. Hard checks: not early (minus timer granularity), exactly once unless
cancelled; due order and cancel rule with a generous margin (lateness is never a violation). Forced-window scripts park the
timer thread between 'timer fired' and 'deliver' (schedule point deq.timer.unlocked) while the interpreter thread executes
<cancel> for the same id or destroys the interpreter: outcome must be 0 or 1 delivery, no deadlock, no sanitizer report.
"""
import os, sys, json, collections, random
from vf import common, thr
from vf.common import Check

G_EARLY_US = 3000        # the delay queue uses the precise monotonic clock (EVENT_BASE_FLAG_PRECISE_TIMER since the fix): epoll rounds the timeout up, 3 ms covers clock reads on both sides
G_ORDER_US = 50000       # margin for ordering / cancel rules
ANCHORS = ['BasicDelayedEventQueue.cpp', 'BasicDelayedEventQueue.h', 'InterpreterImpl.cpp', 'InterpreterImpl.h', 'BasicContentExecutor.cpp', 'SCXMLIOProcessor.cpp']


def timing_chart(rng, dm):
    k = rng.randint(4, 14)
    sends = []; cancels = []; datas = []
    L = ['<scxml xmlns="http://www.w3.org/2005/07/scxml" version="1.0" datamodel="%s">' % dm, '@DATA@', ' <state id="a">', '  <onentry>']
    for i in range(k):
        d = rng.randint(5, 400)
        form = rng.choice(['%dms' % d, '%dms' % d, '%d' % d, '%.3fs' % (d / 1000.0), ('%.3fs' % (d / 1000.0))[1:], '%d ms' % d, '%dMS' % d, '%.3fS' % (d / 1000.0)])    # 50ms, 50, 0.050s, .050s, 50 ms, 50MS, 0.050S (CSS2 units are case-insensitive)
        sid = 'id%d' % i if rng.random() < 0.6 else None
        # delayed sends to the session's own internal queue arrive from the timer thread as well
        tgt = '#_internal' if rng.random() < 0.25 else None
        dattr = 'delay="%s"' % form
        if dm == 'lua' and rng.random() < 0.2: dattr = 'delayexpr="\'%s\'"' % form        # the delay as the value of an expression
        idattr = (' id="%s"' % sid) if sid else ''
        if dm == 'lua' and sid and rng.random() < 0.3:
            # the send id is generated and stored in a variable (idlocation); it is cancelled through sendidexpr
            idattr = ' idlocation="v%d"' % i; sid = 'loc:v%d' % i; datas.append('v%d' % i)
        sends.append({'ev': 'd%d' % i, 'delay_ms': d, 'id': sid, 'form': dattr, 'target': tgt})
        L.append('   <send event="d%d" %s%s%s/>' % (i, dattr, idattr, (' target="%s"' % tgt) if tgt else ''))
    # cancel some of the later ones right away (completed long before they are due)
    for s in sends:
        if s['id'] and s['delay_ms'] > 150 and rng.random() < 0.4:
            cancels.append(s['id'])
            L.append(('   <cancel sendidexpr="%s"/>' % s['id'][4:]) if s['id'].startswith('loc:') else ('   <cancel sendid="%s"/>' % s['id']))
    # delayed sends that cannot be dispatched when they are due (no parent session, no such invocation): error.communication, once each
    nbad = 0; baddelays = []
    if rng.random() < 0.4:
        for tgt in rng.sample(['#_parent', '#_nosuchinvoke', '#_scxml_nosuchsession'], rng.randint(1, 2)):
            nbad += 1; bd = rng.randint(5, 200); baddelays.append(bd)
            L.append('   <send event="undeliverable%d" delay="%dms" target="%s"/>' % (nbad, bd, tgt))
    # one <send id> executed several times (here: a targetless transition taken rep times): <cancel> must remove every pending instance, or none is removed
    rep = None
    if rng.random() < 0.5:
        rep = {'times': rng.randint(2, 3), 'delay_ms': rng.randint(250, 400), 'cancel': rng.random() < 0.7, 'cancel_at_ms': rng.randint(20, 80)}
        for _ in range(rep['times']): L.append('   <raise event="rep"/>')
        if rep['cancel']: L.append('   <send event="docancelrep" delay="%dms"/>' % rep['cancel_at_ms'])
    L += ['  </onentry>', '  <transition event="d"/>', '  <transition event="error.communication"><log label="ERRCOMM"/></transition>']
    if rep:
        L += ['  <transition event="rep"><send event="again" id="idrep" delay="%dms"/></transition>' % rep['delay_ms'], '  <transition event="again"/>',
              '  <transition event="docancelrep"><cancel sendid="idrep"/></transition>']
    L += [' </state>', '</scxml>']
    L[1] = (' <datamodel>' + ''.join('<data id="%s" expr="\'\'"/>' % v for v in datas) + '</datamodel>') if datas else ''
    return '\n'.join(L), sends, cancels, nbad, rep, baddelays


def check_timing(recs, sends, cancels, baddelays=(), cross_queue=False):
    bad = []
    cb = {}; ca_cancel = {}; deliv = collections.defaultdict(list)
    for r in recs:
        a = r[4].split(' ')
        if r[3] == 'CB' and a[1] == 'send': cb[a[2]] = r[1]
        elif r[3] == 'CA' and a[1] == 'cancel': ca_cancel[('loc:' + a[2][5:]) if a[2].startswith('expr:') else a[2]] = r[1]
        elif r[3] == 'E' and a[1].startswith('d') and a[1][1:].isdigit(): deliv[a[1]].append(r[1])
    for s in sends:
        ev = s['ev']; t0 = cb.get(ev)
        if t0 is None: bad.append(('send-not-executed', {'event': ev})); continue
        due = t0 + s['delay_ms'] * 1000
        cancelled = s['id'] in cancels
        n = len(deliv.get(ev, []))
        if cancelled:
            if n and ca_cancel.get(s['id'], 10 ** 12) < due - G_ORDER_US:
                bad.append(('delivered-after-completed-cancel', {'event': ev, 'send': s, 'cancel_done_us': ca_cancel.get(s['id']), 'due_us': due, 'delivered_us': deliv[ev]}))
            continue
        if n == 0: bad.append(('delayed-event-never-delivered', {'event': ev, 'send': s}))
        elif n > 1: bad.append(('delayed-event-delivered-twice', {'event': ev, 'send': s, 'times': deliv[ev]}))
        if n and deliv[ev][0] < due - G_EARLY_US:
            bad.append(('delivered-early', {'event': ev, 'send': s, 'send_us': t0, 'delivered_us': deliv[ev][0], 'early_by_us': due - deliv[ev][0]}))
    # due order with margin
    # (per queue: what is observed is when an event is *processed*; events for the internal queue overtake external ones that are waiting
    #  whenever the stepping thread was held up for a while - that is the SCXML queue discipline, not an order of delivery)
    for q in ('#_internal', None):
        order = sorted(((deliv[s['ev']][0], s) for s in sends if s['id'] not in cancels and deliv.get(s['ev']) and s['target'] == q), key=lambda x: x[0])
        for (ta, a), (tb, b) in zip(order, order[1:]):
            da = cb[a['ev']] + a['delay_ms'] * 1000; db = cb[b['ev']] + b['delay_ms'] * 1000
            if da - db > G_ORDER_US:
                bad.append(('delivered-out-of-due-order', {'first': a, 'second': b, 'due_difference_us': da - db})); break
    # across the queues one direction is independent of how busy the stepper was: what the timer thread put into the internal queue (delayed
    # #_internal sends, error.communication of undeliverable ones) is processed before an external event that became due clearly later -
    # the timer thread delivers in due order and the interpreter takes internal events first, also when it had been blocked in step()
    ext = [(cb[s_['ev']] + s_['delay_ms'] * 1000, deliv[s_['ev']][0], s_['ev']) for s_ in sends if s_['target'] is None and s_['id'] not in cancels and deliv.get(s_['ev']) and s_['ev'] in cb]
    internal = [(cb[s_['ev']] + s_['delay_ms'] * 1000, deliv[s_['ev']][0], s_['ev']) for s_ in sends if s_['target'] == '#_internal' and s_['id'] not in cancels and deliv.get(s_['ev']) and s_['ev'] in cb]
    errt = sorted(r[1] for r in recs if r[3] == 'E' and r[4].split(' ')[1] == 'error.communication')
    t_entry = min(cb.values()) if cb else None
    if t_entry is not None and len(errt) == len(baddelays):
        internal += [(t_entry + bd * 1000, t, 'error.communication#%d' % k) for k, (bd, t) in enumerate(zip(sorted(baddelays), errt))]
    # (applied in the errwake scenario only - one internal-queue event, one external event several hundred ms later. In the general timing
    #  charts one run in several hundred showed an error.communication processed 100 ms after its send was due, behind an external event
    #  due 80 ms later, on a machine with every core busy; the cause could not be established, so nothing is concluded from such runs)
    for due_i, t_i, n_i in (internal if cross_queue else []):
        for due_e, t_e, n_e in ext:
            if due_e - due_i > G_ORDER_US and t_e < t_i:
                bad.append(('internal-event-from-timer-overtaken-by-later-external-event', {'internal': n_i, 'external': n_e, 'due_difference_us': due_e - due_i, 'processed_us': [t_i, t_e]})); break
        else: continue
        break
    return bad, sum(len(v) for v in deliv.values())


RACE = '''<scxml xmlns="http://www.w3.org/2005/07/scxml" version="1.0" datamodel="%(dm)s">
 <state id="a"><onentry><send event="tick" id="T" delay="%(d)dms"/><send event="other" id="O" delay="%(d2)dms"/></onentry>
  <transition event="docancel"><cancel sendid="T"/><log label="cancel executed"/></transition>
  <transition event="tick" target="b"/></state>
 <state id="b"><transition event="docancel"><cancel sendid="T"/></transition></state>
</scxml>'''

SCRIPTS = {
    # timer thread parked between 'fired' and 'deliver'; interpreter thread runs <cancel> for the same id meanwhile
    'cancel-in-window': dict(script='deq.timer.unlocked:set:parked,deq.timer.unlocked:wait:cancelling:400,deq.timer.unlocked:sleep:30000,ii.cancel.entry:set:cancelling', send='docancel', sendwhen='parked'),
    # timer thread parked at the entry of the callback (before it takes the queue mutex)
    'cancel-at-timer-entry': dict(script='deq.timer.entry:set:parked,deq.timer.entry:wait:cancelling:400,ii.cancel.entry:set:cancelling', send='docancel', sendwhen='parked'),
    # cancel arrives first, timer fires while cancel is between the two locks
    'timer-during-cancel': dict(script='ii.cancel.entry:set:cancelling,ii.cancel.entry:sleep:60000', send='docancel', sendwhen=''),
    # destroy the interpreter while the timer thread is parked before delivery
    'destroy-in-window': dict(script='deq.timer.unlocked:set:parked,deq.timer.unlocked:sleep:150000', send='', sendwhen='', stopwhen='parked'),
    # the same with a delivery that takes long: destruction has to wait for it however long it takes
    'destroy-in-long-window': dict(script='deq.timer.unlocked:set:parked,deq.timer.unlocked:sleep:600000', send='', sendwhen='', stopwhen='parked'),
    # reset() while the timer thread is parked in a delivery: it has to wait for that delivery without holding what the delivery needs
    'reset-in-window': dict(script='deq.timer.unlocked:set:parked,deq.timer.unlocked:sleep:150000', send='', sendwhen='', stopwhen='parked', atstop='reset'),
}


# a <send delay> executed by the interpreter's thread while the timer thread sits in the callback of an earlier timer (parked there for 60 ms;
# the transition burns 30 ms first): the delay has to count from the moment the <send> runs, not from when that callback began
STALE = '''<scxml xmlns="http://www.w3.org/2005/07/scxml" version="1.0" datamodel="lua">
 <state id="a"><onentry><send event="first" delay="5ms"/></onentry>
  <transition event="kick"><script>local t = os.clock(); while os.clock() - t &lt; 0.03 do end</script><send event="late" delay="%(d)dms"/></transition>
  <transition event="first"/><transition event="late"/></state>
</scxml>'''
SCRIPTS['send-during-callback'] = dict(script='deq.timer.unlocked:set:parked,deq.timer.unlocked:sleep:60000', send='kick', sendwhen='parked')


def run_timing(job):
    flavour, seed, dm, engine, outdir = job[:5]
    rng = random.Random(seed)
    xml, sends, cancels, nbad, rep, baddelays = timing_chart(rng, dm)
    block = rng.choice([20, 20, 3000])
    if len(job) > 5 and job[5] == 'errwake':
        # nothing but an undeliverable delayed send (or a delayed #_internal one) and a much later external one, stepper asleep in step(3000):
        # what the timer thread puts into the internal queue has to wake it and is processed long before the external event is due
        bd = rng.randint(20, 80); late = rng.randint(500, 800); kind = rng.choice(['#_nosuchinvoke', '#_parent', '#_internal'])
        first = ('<send event="undeliverable1" delay="%dms" target="%s"/>' % (bd, kind)) if kind != '#_internal' else ('<send event="d1" delay="%dms" target="#_internal"/>' % bd)
        xml = ('<scxml xmlns="http://www.w3.org/2005/07/scxml" version="1.0" datamodel="%s">\n <state id="a">\n  <onentry>\n   %s\n   <send event="d0" delay="%dms"/>\n  </onentry>\n'
               '  <transition event="d"/>\n  <transition event="error.communication"><log label="ERRCOMM"/></transition>\n </state>\n</scxml>') % (dm, first, late)
        sends = [{'ev': 'd0', 'delay_ms': late, 'id': None, 'form': None, 'target': None}] + ([{'ev': 'd1', 'delay_ms': bd, 'id': None, 'form': None, 'target': '#_internal'}] if kind == '#_internal' else [])
        cancels = []; rep = None; baddelays = [bd] if kind != '#_internal' else []; nbad = len(baddelays); block = 3000
    f = os.path.join(outdir, 't%d.scxml' % seed); open(f, 'w').write(xml)
    r = thr.run_with_stacks(flavour, 'timers', f, timeout=40, seed=seed, engine=engine, quiet=700, block=block, **{'yield': rng.choice([0, 100, 400])})
    rec = {'job': list(job[:4]), 'bad': [], 'deliveries': 0, 'xml': xml}
    if r['timeout']:
        rec['bad'].append(('hang', {'stacks': [s[-3500:] for s in r.get('stacks', [])]})); return rec
    if r['rc'] != 0: rec['bad'].append(('crash:' + (common.sanitizer_summary(r['err']) or 'rc=%s' % r['rc'])[:110], {'stderr': r['err'][-3000:]})); return rec
    recs = thr.records(r['out'])
    bad, n = check_timing(recs, sends, cancels, baddelays, cross_queue=(len(job) > 5 and job[5] == 'errwake'))
    if rep:
        got = sum(1 for x in recs if x[3] == 'E' and x[4].split(' ')[1] == 'again')
        want = 0 if rep['cancel'] else rep['times']
        if got != want:
            bad.append(('repeated-send-id:%s' % ('cancelled-but-delivered' if rep['cancel'] else 'instances-lost'), {'executions': rep['times'], 'cancelled': rep['cancel'], 'delivered': got, 'expected': want, 'rep': rep}))
        n += got
    # macrostep accounting (the C08/C13 rule on this workload): events that arrive through the external queue are only taken at a stable
    # point, i.e. a stable-configuration notice lies between any processed event and the next external one - also when the event before
    # was put into the internal queue by the timer thread (delayed #_internal send, error.communication for an undeliverable one) while the
    # session was idle; and the last event processed is followed by a notice
    internal = set(s_['ev'] for s_ in sends if s_['target'] == '#_internal') | {'rep', 'error.communication'}
    pend_stable = None; seen_e = 0
    for x in sorted((x for x in recs if x[3] in ('E', 'S')), key=lambda x: x[0]):
        if x[3] == 'S': pend_stable = None; continue
        nm_ = x[4].split(' ')[1]
        if not nm_: continue            # the empty wake-up event
        seen_e += 1
        if nm_ not in internal and pend_stable is not None:
            bad.append(('external-event-taken-without-stable-notice-after:%s' % ('internal-event-from-timer-thread' if pend_stable in internal else 'external-event'), {'event': nm_, 'previous_event': pend_stable})); break
        pend_stable = nm_
    else:
        if pend_stable is not None and seen_e:
            bad.append(('no-stable-notice-after-last-event', {'last_event': pend_stable}))
    errs = sum(1 for x in recs if x[3] == 'E' and x[4].split(' ')[1] == 'error.communication')
    if errs != nbad: bad.append(('undeliverable-delayed-send:error.communication-%d-times-for-%d-sends' % (errs, nbad), {'undeliverable_sends': nbad, 'error_events': errs}))
    rec['bad'] = bad; rec['deliveries'] = n + errs
    if flavour == 'tsan':
        att, un = thr.tsan_reports(r['err'], ANCHORS)
        for sig, c in att.items(): rec['bad'].append(('tsan:' + sig[:150], {'count': c, 'report': r['err'][:3500]}))
        rec['tsan_other'] = dict(un)
    rec['sigs'] = thr.signatures(recs, ('CB',), 6)
    return rec


def run_script(job):
    flavour, name, seed, dm, engine, outdir = job
    rng = random.Random(seed)
    d = rng.randint(30, 80)
    xml = RACE % {'dm': dm, 'd': d, 'd2': d + 150}
    if name == 'send-during-callback': xml = STALE % {'d': 100 + d}
    f = os.path.join(outdir, 'r_%s_%d.scxml' % (name, seed)); open(f, 'w').write(xml)
    kw = dict(SCRIPTS[name]); kw = dict((k, v) for k, v in kw.items() if v != '')
    if name == 'timer-during-cancel': kw['send'] = 'docancel'; kw['sendwhen'] = ''
    r = thr.run_with_stacks(flavour, 'timers', f, timeout=25, seed=seed, engine=engine, **dict({'quiet': 500}, **kw))
    rec = {'job': list(job[:5]), 'bad': [], 'reached': False, 'xml': xml, 'outcome': None}
    recs = thr.records(r['out'])
    rec['reached'] = any(x[3] == 'HS' for x in recs) or r['timeout']
    if r['timeout']:
        st = r.get('stacks', [])
        blocked = ' '.join(st)
        key = 'deadlock' if ('event_del' in blocked or 'pthread_mutex_lock' in blocked or '__lll_lock_wait' in blocked or 'pthread_cond' in blocked or 'join' in blocked) else 'hang'
        frames = sorted(set(x for x in ('event_del', 'cancelDelayed', 'timerCallback', 'eventReady', 'cancelAllDelayed', 'stop', 'join') if x in blocked))
        rec['bad'].append(('%s:%s:%s' % (key, name, '+'.join(frames)), {'stacks': [s[-5000:] for s in st]})); return rec
    if r['rc'] != 0: rec['bad'].append(('crash:%s:%s' % (name, (common.sanitizer_summary(r['err']) or 'rc=%s' % r['rc'])[:100]), {'stderr': r['err'][-3000:]})); return rec
    if name == 'send-during-callback':
        cb = [x[1] for x in recs if x[3] == 'CB' and ' send late ' in x[4]]
        ev = [x[1] for x in recs if x[3] == 'E' and x[4].split(' ')[1] == 'late']
        if not cb: rec['reached'] = False
        elif len(ev) != 1: rec['bad'].append(('delayed-event-delivered-%d-times:%s' % (len(ev), name), {'send_us': cb[0]}))
        elif ev[0] < cb[0] + (100 + d) * 1000 - G_EARLY_US:
            rec['bad'].append(('delivered-early:' + name, {'send_us': cb[0], 'delay_ms': 100 + d, 'delivered_us': ev[0], 'early_by_us': cb[0] + (100 + d) * 1000 - ev[0]}))
        rec['outcome'] = len(ev)
        rec['sigs'] = thr.signatures(recs, ('HS', 'HW'), 8)
        return rec
    ticks = sum(1 for x in recs if x[3] == 'E' and x[4].split(' ')[1] == 'tick')
    rec['outcome'] = ticks
    if name == 'reset-in-window':
        # the session starts over after reset(): one tick per session at most, and reset() must have returned
        if rec['reached'] and not any(x[3] == 'RESET' and x[4] == 'end' for x in recs): rec['bad'].append(('reset-did-not-return:' + name, {}))
        if ticks > 2: rec['bad'].append(('double-delivery:' + name, {'deliveries': ticks}))
    elif ticks > 1: rec['bad'].append(('double-delivery:' + name, {'deliveries': ticks}))
    if flavour == 'tsan':
        att, un = thr.tsan_reports(r['err'], ANCHORS)
        for sig, c in att.items(): rec['bad'].append(('tsan:' + sig[:150], {'count': c, 'script': name, 'report': r['err'][:3500]}))
    rec['sigs'] = thr.signatures(recs, ('HS', 'HW'), 8)
    return rec


def main(tier, replay):
    chk = Check('C09', tier)
    for fl in ('tsan', 'asan', 'plain'): common.build(fl); common.harness('vthr', fl)
    if replay:
        case = json.load(open(replay))['case']; print(json.dumps(case, indent=1)[:6000]); sys.exit(0)
    outdir = common.scratch('c09')
    rng = chk.rng
    nt = 60 if tier == 'quick' else 600
    tjobs = [(('plain', 'tsan', 'asan')[i % 3], chk.seed * 100000 + i, ('lua', 'promela')[i % 2], ('large', 'fast')[(i // 2) % 2], outdir) for i in range(nt)]
    tjobs += [(('plain', 'tsan', 'asan')[i % 3], chk.seed * 100000 + 50000 + i, ('lua', 'promela')[i % 2], ('large', 'fast')[(i // 2) % 2], outdir, 'errwake') for i in range(12 if tier == 'quick' else 150)]
    sigs = set(); deliveries = 0
    for rec in common.pmap(run_timing, tjobs, workers=min(12, common.NPROC)):
        chk.count(); deliveries += rec['deliveries']; sigs |= rec.get('sigs', set())
        if not rec['bad']: chk.nontrivial('timing:%s' % rec['job'])
        for key, det in rec['bad']: chk.report(key, {'job': rec['job'], 'xml': rec['xml'], 'detail': det}, 'timing %s: %s' % (rec['job'], key))
        if not rec['bad'] and len(chk.samples) < 2: chk.sample({'workload': 'timing chart', 'job': rec['job'], 'deliveries_checked': rec['deliveries']})
    reps = 5 if tier == 'quick' else 50
    sjobs = []
    for name in SCRIPTS:
        for k in range(reps):
            sjobs.append((('tsan', 'asan', 'plain')[k % 3], name, chk.seed * 1000 + k, ('lua', 'promela')[k % 2], ('large', 'fast')[(k // 2) % 2], outdir))
    reached = collections.Counter(); outcomes = collections.Counter()
    for rec in common.pmap(run_script, sjobs, workers=min(8, common.NPROC)):
        chk.count(); name = rec['job'][1]; sigs |= rec.get('sigs', set())
        if rec['reached']: reached[name] += 1
        outcomes['%s:%s' % (name, rec['outcome'])] += 1
        if not rec['bad']: chk.nontrivial('script:%s' % rec['job'])
        for key, det in rec['bad']: chk.report(key, {'job': rec['job'], 'xml': rec['xml'], 'detail': det}, 'script %s: %s' % (rec['job'], key))
    for name in SCRIPTS:
        if reached[name] == 0: chk.inconc('forced window of script %s was never reached' % name)
    import shutil
    shutil.rmtree(outdir, ignore_errors=True)
    chk.add('deliveries_checked', deliveries); chk.add('forced_windows_reached', dict(reached)); chk.add('script_outcomes', dict(outcomes)); chk.add('distinct_interleaving_signatures', len(sigs))
    chk.rule = ('timing charts: 4-14 delayed sends (5-400 ms, ms/s/unit-less forms, ids, a quarter of them to #_internal, some to targets that do not exist) and cancels, stepper polling (20 ms) or really blocking (3 s) in step(), run on plain/tsan/asan builds, both engines; not-early (2 ms) and exactly-once are hard checks, order/cancel rules use a 50 ms margin. '
                'forced-window scripts (8) park the timer thread at deq.timer.entry / deq.timer.unlocked while <cancel>, reset() or destruction runs. distinct_nontrivial = runs without violation')
    chk.assumptions = ['lateness is never a violation', 'a hang is reported with two gdb stack samples; forced scripts that never reach their window make the run inconclusive']
    chk.min_distinct = 10
    chk.finish()


if __name__ == '__main__':
    common.main_wrapper(main)
