"""C18 - Generated VHDL micro-step logic computes the specified next configuration.

The emitted combinational equations (the real artefact of ChartToVHDL) are executed by the netlist evaluator vf/vhdl_eval.py
for every legal configuration x (every event of the document + the spontaneous step) x every valuation of the condition
inputs, and compared with the reference step under the transpilers' conflict relation (vf/refscxml.py variants
static_select/static_domain). ghdl is not installed; the sequential part (FIFO, registers) is not simulated.
"""
import os, sys, json, itertools, collections, shutil, random
from vf import common, chart as C, tables, xform, vhdl_eval, refscxml
from vf.common import Check


def gen_doc(seed):
    """random document in the VHDL fragment: no history, no datamodel; conditions are opaque inputs; events e1,e2,e3"""
    rng = random.Random(seed)
    for _ in range(50):
        g = C.Gen(rng, nstates=rng.choice([4, 6, 8, 10]), data=False)
        ch = g.chart()
        if any(s.kind == 'history' for s in ch.doc): continue
        nc = 0
        for s in ch.doc:
            for t in s.trans:
                if t.events: t.events = [rng.choice(['e1', 'e2', 'e3', 'e1', 'e2', 'e1.a', 'e1.*', 'e2.b.*', 'e3.', '*'])]
                if t.cond is not None:
                    nc += 1
                    if nc > 6: t.cond = None
        if seed % 3 == 0: C.substring_ids(ch)      # ids that are prefixes of one another (s1, s11, s111, ...)
        return ch
    return None


def check_doc(ch, text):
    """-> (evaluations, list of (key, detail))"""
    nodes, trans, byid = tables.build(ch)
    net = vhdl_eval.Netlist(text)
    idx = dict((n.id, n.idx) for n in nodes if n.id)
    idx['root'] = 0
    real = [(i, t) for i, t in enumerate(trans) if not t['pseudo']]
    condt = [(i, t) for i, t in real if t['t'].cond is not None]
    from vf.checks.c12_behav import escape_macro
    strip = lambda d: d[:-2] if d.endswith('.*') else d[:-1] if d.endswith('.') else d
    events = sorted(set(strip(e) for i, t in real for e in (t['t'].events or []) if e != '*'))    # the event names the generator knows
    ev_sigs = dict((e, 'event_%s_sig' % escape_macro(e)) for e in events)
    for e, sname in ev_sigs.items():
        if sname not in net.inputs and sname not in net.eq:
            pass   # an event no transition resolves to; the signal is simply unused
    confs = C.legal_configurations(ch)
    ref = refscxml.Ref(ch, ('static_select', 'static_domain'))
    bad = []; n = 0
    state_nodes = [nd for nd in nodes if nd.kind in ('state', 'parallel', 'final')]
    for conf in confs:
        # a configuration containing a top-level final is complete: no further step
        if any(ch.by_id[i].kind == 'final' and ch.by_id[i].parent.kind == 'scxml' for i in conf): continue
        for ev in [None] + events:
            for vals in itertools.product((False, True), repeat=len(condt)):
                n += 1
                inp = {}
                for nd in nodes: inp['state_active_%d_sig' % nd.idx] = (nd.id in conf) or (nd.idx == 0)
                for e, sname in ev_sigs.items(): inp[sname] = (e == ev)
                inp['spontaneous_en'] = ev is None
                condval = {}
                for (i, t), v in zip(condt, vals):
                    inp['transition_condition_fulfilled_%d_i' % i] = v
                    condval[(t['t'].source.id, t['t'].idx)] = v
                for x in net.inputs:
                    if x not in inp: inp[x] = False
                try:
                    val = net.evaluate(inp)
                except vhdl_eval.ParseError as e:
                    bad.append(('netlist:' + str(e)[:60], {'configuration': sorted(conf), 'event': ev})); return n, bad
                taken, ex, entered, nxt = ref.step_from(conf, ev, condval)
                exp_t = set(i for i, t in real if (t['t'].source.id, t['t'].idx) in taken)
                got_t = set(i for i, t in real if val.get('in_optimal_transition_set_%d_sig' % i))
                ctx = {'configuration': sorted(conf), 'event': ev, 'conditions': dict(('t%d' % i, v) for (i, t), v in zip(condt, vals))}
                if exp_t != got_t:
                    bad.append(('optimal-transition-set', dict(ctx, expected=sorted(exp_t), observed=sorted(got_t)))); continue
                exp_x = set(idx[s] for s in ex); got_x = set(nd.idx for nd in state_nodes if val.get('in_exit_set_%d_sig' % nd.idx))
                if exp_x != got_x:
                    bad.append(('exit-set', dict(ctx, taken=sorted(exp_t), expected=sorted(exp_x), observed=sorted(got_x)))); continue
                exp_n = set(idx[s] for s in nxt) - {0}; got_n = set(nd.idx for nd in state_nodes if val.get('state_next_%d_sig' % nd.idx))
                if exp_n != got_n:
                    exp_e = set(idx[s] for s in entered) - {0}; got_e = set(nd.idx for nd in state_nodes if val.get('in_entry_set_%d_sig' % nd.idx))
                    bad.append(('next-configuration', dict(ctx, taken=sorted(exp_t), expected=sorted(exp_n), observed=sorted(got_n), entry_expected=sorted(exp_e), entry_observed=sorted(got_e))))
                    continue
    return n, bad


def classify(ch, key, det):
    if key == 'next-configuration':
        miss = set(det['expected']) - set(det['observed']); extra = set(det['observed']) - set(det['expected'])
        nodes, trans, byid = tables.build(ch)
        if miss and not extra:
            # which kind of completion is missing?
            kinds = set()
            for m in miss:
                nd = nodes[m]
                if any(c.idx in det['entry_observed'] or c.idx in det['observed'] for c in nd.children): kinds.add('ancestor-of-entered-state-not-entered')
                else:
                    # nearest ancestor that was entered/active in the observed next configuration: why was it not completed?
                    a = nd.parent
                    while a is not None and a.idx != 0 and a.idx not in det['observed']: a = a.parent
                    why = 'default'
                    if a is not None and a.st is not None:
                        if a.st.initial_elem: why = 'initial-element'
                        elif a.st.initial_attr and (len(a.st.initial_attr) > 1 or any(ch.by_id[x].parent is not a.st for x in a.st.initial_attr)): why = 'initial-attribute-multi-or-deep'
                    kinds.add('descendant-completion-missing:' + why)
            return ['next-configuration:' + k for k in sorted(kinds)]
        if extra and not miss: return 'next-configuration:extra-states-active'
        return 'next-configuration:differs'
    return key


def work(job):
    binary, outdir, cases = job
    os.makedirs(outdir, exist_ok=True)
    docs = {}
    for cid, kind, arg in cases:
        ch = gen_doc(arg) if kind == 'rand' else arg
        if ch is None: continue
        docs[cid] = ch
    res = xform.transform_batch(binary, [(cid, 'vhdl', C.render(ch, 'null')) for cid, ch in docs.items()], outdir)
    out = []
    for cid, ch in docs.items():
        r = res.get(cid)
        rec = {'id': cid, 'hash': C.chart_hash(ch), 'n': 0, 'bad': [], 'states': len(ch.doc), 'xml': None}
        if not r or r[0] != 'ok':
            rec['bad'].append(('transform:' + str(r[1] if r else 'none')[:100], {'stderr': r[2] if r and len(r) > 2 else None})); rec['xml'] = C.render(ch, 'null')
            out.append(rec); continue
        try:
            n, bad = check_doc(ch, open(os.path.join(outdir, cid + '.vhdl'), errors='replace').read())
        except vhdl_eval.ParseError as e:
            n, bad = 0, [('netlist:' + str(e)[:80], {})]
        rec['n'] = n
        seen = set()
        for key, det in bad:
            ks = classify(ch, key, det)
            for k in (ks if isinstance(ks, list) else [ks]):
                if k in seen: continue
                seen.add(k); rec['bad'].append((k, det))
        if rec['bad']: rec['xml'] = C.render(ch, 'null')
        rec['confs'] = len(C.legal_configurations(ch))
        for f in os.listdir(outdir):
            if f.startswith(cid + '.'): os.unlink(os.path.join(outdir, f))
        out.append(rec)
    return out


def main(tier, replay):
    chk = Check('C18', tier)
    common.build('asan')
    binary = common.harness('vxform', 'asan', transform=True)
    vhdl_eval.selftest()
    if replay:
        case = json.load(open(replay))['case']; print(json.dumps(case, indent=1)[:4000]); sys.exit(0)
    outroot = common.scratch('c18')
    fam = [ch for ch in C.family_E(3, 2, with_history=False)]
    cases = [('E%d' % i, 'fam', ch) for i, ch in enumerate(fam)]
    nrand = 800 if tier == 'quick' else 4000
    base = chk.seed * 1000000 + 1818
    cases += [('r%d' % i, 'rand', base + i) for i in range(nrand)]
    jobs = [(binary, os.path.join(outroot, 'w%d' % (i // 20)), cases[i:i + 20]) for i in range(0, len(cases), 20)]
    total = 0; docs = 0
    for out in common.pmap(work, jobs):
        for rec in out:
            docs += 1; total += rec['n']; chk.count(max(1, rec['n']))
            if rec['n'] > 4: chk.nontrivial(rec['hash'])
            for key, det in rec['bad']:
                chk.report(key, {'xml': rec['xml'], 'situation': det}, '%s %s' % (rec['id'], key))
            if not rec['bad'] and len(chk.samples) < 4 and rec['n'] > 20:
                chk.sample({'document': rec['id'], 'states': rec['states'], 'legal_configurations': rec.get('confs'), 'situations_evaluated': rec['n']})
    shutil.rmtree(outroot, ignore_errors=True)
    chk.add('documents', docs); chk.add('situations_evaluated', total); chk.add('family_E_documents', len(fam))
    chk.exhaustive = False
    chk.rule = ('per document exhaustive: every legal configuration (no top-level final active) x (spontaneous step + every event of the document) x all 2^k valuations of the k<=6 condition inputs; '
                'documents = family E without history (<=3 states) + seeded random history-free documents with events e1..e3; evaluations = situations evaluated; '
                'distinct_nontrivial = distinct documents with more than 4 situations')
    chk.assumptions = ['vf/vhdl_eval.py interprets the emitted boolean netlist (self-tested on hand-written equations)', 'reference step = vf/refscxml.py with static_select/static_domain',
                       'the sequential part of the design is not simulated; the root bit (state_next_0) is not compared']
    chk.min_distinct = 50
    chk.finish()


if __name__ == '__main__':
    common.main_wrapper(main)
