"""C05 - Transpilers compute the chart's structural relations correctly.

The real transformers (ChartToC/ChartToPromela/ChartToVHDL, ASan/UBSan build) are run in-process on enumerated and random
documents; the tables of the annotated DOM and their copies in the emitted C initialisers, Promela init block and VHDL
equations are parsed and compared with the relations recomputed from the source document (vf/tables.py), and with each other.
"""
import os, sys, json, collections, shutil
from vf import common, chart as C, c01lib, tables, xform
from vf.common import Check


def classify(ch, exp, df):
    what, idx, field, e, g = df
    if field == 'completion:history':
        hs = [q for q in ch.doc if q.kind == 'history']
        nested = any(a is not b and (C.is_descendant(b.parent, a.parent)) for a in hs for b in hs)
        if nested and set(g) < set(e):
            return 'history-completion-drops-states-covered-by-nested-history'
    return '%s:%s' % (what, field)


def work(job):
    binary, outdir, cases = job
    os.makedirs(outdir, exist_ok=True)
    jobs = []; meta = {}
    for cid, kind, arg in cases:
        if kind == 'rand':
            ch, _ = C.gen_chart(arg, data=False, nstates=12)
            if arg % 3 == 0: C.substring_ids(ch)      # ids that are prefixes of one another
        else: ch = arg
        xml = C.render(ch, 'null')
        has_hist = any(s.kind == 'history' for s in ch.doc)
        backends = ('c', 'pml') if has_hist else ('c', 'pml', 'vhdl')     # the VHDL back-end's fragment has no history
        meta[cid] = (ch, xml, backends)
        for t in backends:
            jobs.append(('%s_%s' % (cid, t), t, C.render(ch, 'promela') if t == 'pml' else xml))
    res = xform.transform_batch(binary, jobs, outdir)
    out = []
    for cid, (ch, xml, backends) in meta.items():
        rec = {'id': cid, 'states': len(ch.doc), 'diffs': [], 'entries': 0, 'hash': C.chart_hash(ch)}
        exp = tables.expected(ch)
        rec['nontrivial'] = len(exp['trans']) > 0 and len(exp['states']) > 2
        got = {}
        for t in backends:
            r = res.get('%s_%s' % (cid, t))
            if not r or r[0] != 'ok':
                rec['diffs'].append(('transform-%s:%s' % (t, (r[1] if r else 'no result')), {'xml': xml, 'backend': t, 'stderr': r[2] if r and len(r) > 2 else None}))
                continue
            got[t] = open(os.path.join(outdir, '%s_%s.%s' % (cid, t, t)), errors='replace').read()
        try:
            if 'c' in got:
                ann = tables.parse_annotated(open(os.path.join(outdir, '%s_c.c.ann.xml' % cid), errors='replace').read())
                d1 = tables.compare(exp, ann, 'annotated')
                ctab = tables.parse_c(got['c'])
                # hex initialisers must equal their own bit-string comments and the annotated document
                for s in ctab['states']:
                    for f in ('children', 'completion', 'anc'):
                        if s[f + '_comment'] is not None and s[f] != s[f + '_comment']:
                            d1.append(('c-hex-vs-comment', s['idx'], f, sorted(s[f + '_comment']), sorted(s[f])))
                for t_ in ctab['trans']:
                    for f in ('targets', 'conflicts', 'exit'):
                        if t_[f + '_comment'] is not None and t_[f] != t_[f + '_comment']:
                            d1.append(('c-hex-vs-comment', t_['postfix'], f, sorted(t_[f + '_comment']), sorted(t_[f])))
                d1 += cross(ann, ctab, 'c-vs-annotated')
                rec['entries'] += sum(len(s) for s in ann['states']) + sum(len(t_) for t_ in ann['trans'])
                if 'pml' in got:
                    ptab = tables.parse_pml(got['pml'])
                    d1 += cross(ann, ptab, 'pml-vs-annotated')
                if 'vhdl' in got:
                    v = tables.parse_vhdl(got['vhdl'])
                    if v['ntrans'] == len(ann['trans']):
                        prop = set(s['idx'] for s in exp['states'] if s['kind'] in ('state', 'parallel', 'final', 'scxml'))
                        for t_ in ann['trans']:
                            e = exp['trans'][t_['postfix']]
                            if e['pseudo']: continue
                            ve = v['exit'].get(t_['postfix'], set())
                            if ve != (t_['exit'] & prop): d1.append(('vhdl-vs-annotated', t_['postfix'], 'exit-set', sorted(t_['exit'] & prop), sorted(ve)))
                            real_lower = set(j for j in t_['conflicts'] if j < t_['postfix'] and not exp['trans'][j]['pseudo'])
                            vc = set(j for j in v['conflicts_lower'].get(t_['postfix'], set()) if not exp['trans'][j]['pseudo'])
                            if vc != real_lower: d1.append(('vhdl-vs-annotated', t_['postfix'], 'conflicts', sorted(real_lower), sorted(vc)))
                for df in d1:
                    rec['diffs'].append((classify(ch, exp, df), {'xml': xml, 'table': df[0], 'index': df[1], 'field': df[2], 'expected': df[3], 'observed': df[4]}))
        except Exception as e:
            import traceback
            rec['diffs'].append(('harness-parse-error', {'xml': xml, 'error': traceback.format_exc()[-1500:]}))
        for f in os.listdir(outdir):
            if f.startswith(cid + '_'):
                try: os.unlink(os.path.join(outdir, f))
                except OSError: pass
        out.append(rec)
    return out


def cross(ann, tab, what):
    d = []
    if len(tab['states']) != len(ann['states']) or len(tab['trans']) != len(ann['trans']):
        return [(what, -1, 'sizes', (len(ann['states']), len(ann['trans'])), (len(tab['states']), len(tab['trans'])))]
    for a, b in zip(ann['states'], tab['states']):
        for f in ('parent', 'anc', 'children', 'completion'):
            if a[f] != b[f]: d.append((what, a['idx'], f, sorted(a[f]) if isinstance(a[f], set) else a[f], sorted(b[f]) if isinstance(b[f], set) else b[f]))
    for a, b in zip(ann['trans'], tab['trans']):
        for f in ('src', 'targets', 'conflicts', 'exit'):
            if a[f] != b[f]: d.append((what, a['postfix'], f, sorted(a[f]) if isinstance(a[f], set) else a[f], sorted(b[f]) if isinstance(b[f], set) else b[f]))
    return d


def main(tier, replay):
    chk = Check('C05', tier)
    common.build('asan')
    binary = common.harness('vxform', 'asan', transform=True)
    outroot = common.scratch('c05')
    if replay:
        case = json.load(open(replay))['case']
        print(json.dumps(case, indent=1)[:3000]); sys.exit(0)
    fam = list(C.family_E(3, 1)) if tier == 'quick' else list(C.family_E(3, 2))
    cases = [('E%d' % i, 'fam', ch) for i, ch in enumerate(fam)]
    nrand = 1500 if tier == 'quick' else 10000
    base = chk.seed * 1000000 + 55
    cases += [('r%d' % i, 'rand', base + i) for i in range(nrand)]
    chk.add('family_E_documents', len(fam)); chk.add('random_documents', nrand)
    jobs = [(binary, os.path.join(outroot, 'w%d' % (i // 25)), cases[i:i + 25]) for i in range(0, len(cases), 25)]
    entries = 0
    for out in common.pmap(work, jobs):
        for rec in out:
            chk.count(); entries += rec['entries']
            if rec['nontrivial']: chk.nontrivial(rec['hash'])
            seen = set()
            for key, rep in rec['diffs']:
                if key in seen: continue
                seen.add(key)
                if key == 'harness-parse-error': chk.inconc('parse error in %s: %s' % (rec['id'], rep['error'][-300:]))
                else: chk.report(key, rep, '%s %s' % (rec['id'], key))
            if not rec['diffs'] and len(chk.samples) < 4 and rec['nontrivial']:
                chk.sample({'case': rec['id'], 'states': rec['states'], 'table_rows_checked': rec['entries']})
    shutil.rmtree(outroot, ignore_errors=True)
    chk.add('table_rows_checked', entries)
    chk.exhaustive = False
    chk.rule = ('documents: family E (all documents with <=3 states and <=%d transitions; exhaustive for that bound) + seeded random state trees with up to 12 states; each is transformed by the real '
                'ChartToC/ChartToPromela/ChartToVHDL; documentOrder/postFixOrder/parent/children/ancestors/completion/targets/exit sets/conflicts of the annotated DOM are compared with the relations '
                'recomputed from the source (pseudo-state bits in exit sets and completions are do not care), and the C initialisers (hex and comment), Promela init block and VHDL equations with the annotated DOM. '
                'distinct_nontrivial = distinct documents with >2 states and >=1 transition') % (1 if tier == 'quick' else 2)
    chk.assumptions = ['conflict relation expected = same source or ancestor-related sources or static exit sets intersect (the transpilers\' relation, DESIGN.md C05)', 'vf/tables.py oracle']
    chk.min_distinct = 100
    chk.finish()


if __name__ == '__main__':
    common.main_wrapper(main)
