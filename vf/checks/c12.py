"""C12 - Event descriptors match exactly as the recommendation prescribes.

Subjects: (1) uscxml::nameMatch, (2) StateMachine::nameMatch of the shipped C scaffolding (test-gen-c.cpp),
(3) both micro-step engines behaviourally, (4) emitted C, (5) emitted Promela under spin simulation,
(6) emitted VHDL equations. Oracle: vf.match.ref_match (Rec. 3.12.1).
"""
import os, sys, random, json, itertools, subprocess
from vf import common, match
from vf.common import Check, Inconclusive


def run_pairs(args):
    binary, pairs = args
    inp = ''.join('%s\t%s\n' % p for p in pairs)
    rc, out, err, to = common.run_proc([binary], inp=inp, timeout=600)
    if to or rc != 0:
        return ('crash', rc, common.sanitizer_summary(err) or (err or '')[-500:], pairs[:3])
    res = out.split('\n')
    bad = []
    if len(res) - 1 != len(pairs):
        return ('crash', rc, 'short output %d/%d' % (len(res) - 1, len(pairs)), pairs[:3])
    nmatch = 0
    for (d, n), ln in zip(pairs, res):
        exp = match.ref_match(d, n)
        nmatch += exp
        a, b = ln.split()
        if (a == '1') != exp:
            bad.append(('nameMatch', d, n, a == '1', exp))
        if (b == '1') != exp:
            bad.append(('genc-scaffold', d, n, b == '1', exp))
    return ('ok', bad, nmatch)


def random_pairs(rng, n):
    toks = ['a', 'b', 'ab', 'A', 'foo', 'Foo', 'bar', 'x1', 'e_2', 'done', 'state', 'error', 'z']
    out = []
    for _ in range(n):
        def nm(k):
            return '.'.join(rng.choice(toks) for _ in range(rng.randint(1, k)))
        name = nm(6)
        ds = []
        for _ in range(rng.randint(1, 5)):
            r = rng.random()
            if r < 0.08:
                d = '*'
            elif r < 0.5:   # derived from name so that matches are frequent
                nt = name.split('.')
                d = '.'.join(nt[:rng.randint(1, len(nt))])
                if rng.random() < 0.3:
                    d = d[:-1] + rng.choice('abX') if len(d) > 1 else d
                if rng.random() < 0.15:
                    d = d.swapcase()
            else:
                d = nm(4)
            r = rng.random()
            if r < 0.25: d += '.*'
            elif r < 0.35: d += '.'
            ds.append(d)
        sep = rng.choice([' ', ' ', '  ', '   '])
        out.append((sep.join(ds), name))
    return out


def direct_part(chk, tier, binary):
    if tier == 'quick':
        lists = list(match.descriptor_lists(2, 2))
        names = list(match.names(3))
        nrand = 150000
    else:
        lists = list(match.descriptor_lists(2, 3))
        names = list(match.names(3))
        nrand = 1500000
    pairs = [(d, n) for d in lists for n in names]
    pairs += random_pairs(chk.rng, nrand)
    chunk = max(2000, len(pairs) // (common.NPROC * 8) + 1)
    jobs = [(binary, pairs[i:i + chunk]) for i in range(0, len(pairs), chunk)]
    results = common.pmap(run_pairs, jobs)
    n_true = 0
    fails = {}
    for r in results:
        if r[0] == 'crash':
            chk.report('direct:crash:' + str(r[2])[:80], {'rc': r[1], 'what': r[2], 'first_pairs': r[3]}, 'matcher driver died: %s' % (r[2],))
            continue
        n_true += r[2]
        for subj, d, n, got, exp in r[1]:
            key = '%s:%s' % (subj, match.classify(d, n, got, exp))
            fails.setdefault(key, []).append((d, n, got, exp))
    chk.count(len(pairs) * 2)
    chk.add('direct_pairs', len(pairs))
    chk.add('direct_pairs_expected_true', n_true)
    chk.add('direct_exhaustive_lists', len(lists))
    chk.add('direct_exhaustive_names', len(names))
    for key, fl in sorted(fails.items()):
        fl.sort(key=lambda x: (len(x[0]) + len(x[1]), x))
        d, n, got, exp = fl[0]
        chk.report(key, {'subject': key.split(':')[0], 'descriptors': d, 'name': n, 'observed': got, 'expected': exp, 'count': len(fl),
                         'more': fl[1:6]}, 'descs=%r name=%r observed=%s expected=%s (%d cases)' % (d, n, got, exp, len(fl)), n=len(fl))
    # distinct non-trivial: pairs where the expected answer is True via a proper prefix / wildcard, or False although a character prefix exists
    for d, n in pairs[:200000:37]:
        e = match.ref_match(d, n)
        if e and d != n:
            chk.nontrivial(('T', d, n))
        elif not e and any(n.startswith(match.strip_desc(x)) for x in d.split()):
            chk.nontrivial(('F', d, n))
    chk.sample({'descriptors': 'a.b.* ab', 'name': 'a.b.A', 'expected': True})
    for p in pairs[len(pairs) // 2: len(pairs) // 2 + 2] + pairs[-2:]:
        chk.sample({'descriptors': p[0], 'name': p[1], 'expected': match.ref_match(*p)})


def main(tier, replay):
    chk = Check('C12', tier)
    chk.rule = ('pairs (descriptor list, event name): exhaustive over lists of <=2 descriptors with <=%d tokens from {a,b,ab,A} incl. *, x.*, x. and 1-2 blank '
                'separators x names of <=3 tokens, plus seeded random longer ones; each pair is put to every subject. '
                'distinct_nontrivial counts sampled distinct pairs where the answer depends on token boundaries (prefix/wildcard match, or '
                'non-match despite a character prefix), plus behavioural cases per back-end') % (2 if tier == 'quick' else 3)
    chk.assumptions = ['reference relation vf/match.py:ref_match transcribes Rec. 3.12.1', 'descriptor lists are well formed (no leading/trailing blanks)']
    common.build('asan')
    binary = common.harness('vmatch', 'asan', extra_flags=['-I' + common.REPO + '/test/src'])
    if replay:
        case = json.load(open(replay))['case']
        r = run_pairs((binary, [(case['descriptors'], case['name'])]))
        print(r)
        sys.exit(1 if (r[0] != 'ok' or r[1]) else 0)
    direct_part(chk, tier, binary)
    try:
        from vf.checks import c12_behav
        c12_behav.run(chk, tier)
    except ImportError:
        pass
    chk.exhaustive = False
    chk.finish()


if __name__ == '__main__':
    common.main_wrapper(main)
