"""C01 - Interpreter follows the W3C SCXML step algorithm on every chart (default engine 'large', all datamodels).

Oracle: vf/refscxml.py (Appendix D) run on the same document and history; full step-by-step history compared,
stopping at the first divergence. Known findings are identified by an *exact* match of the whole trace with a reference
variant that models the defect (static_domain) or by a predicate on the diverging micro-step (shared history store).
"""
import os, sys, json, random, collections, itertools
from vf import common, chart as C, trace as T, refscxml, compare, c01lib
from vf.common import Check

NONTRIVIAL = {'parallel', 'history-deep', 'history-shallow', 'targetless', 'internal', 'multi-target', 'act-raise', 'history-target'}


def case_random(seed, dm):
    ch, hist = c01lib.make_case(seed, dm)   # promela renders the same chart as lua: datamodel independence
    return ch, hist


def judge(ch, hist, dm, engine, parsed, pend=0, cancel_end=False):
    """-> (verdict, key, detail)"""
    ref = c01lib.ref_run(ch, hist, pend, cancel_end)
    v, k, d = c01lib.compare_case(ch, hist, dm, engine, parsed, ref)      # a reference that livelocks is compared as far as it got
    if v == 'deviation':
        # exact variant match: the implementation computes the transition domain from the static target list
        r2 = refscxml.Ref(ch, ('static_domain',))
        r2.interpret(hist, pend, cancel_end)
        v2, k2, d2 = c01lib.compare_case(ch, hist, dm, engine, parsed, r2)
        if True:
            if v2 == 'ok' or (r2.diverged and ref.diverged and v2 == 'diverged'):
                return 'deviation', 'history-target-static-domain', d
    return v, k, d


def work(job):
    binary, cases = job
    # cases: list of (cid, kind, arg, dm)
    built = []
    for cid, kind, arg, dm, hist_override in cases:
        if kind == 'rand':
            ch, hist = case_random(arg, dm)
        else:
            ch = arg; hist = hist_override
        if hist_override is not None: hist = hist_override
        ref = c01lib.ref_run(ch, hist)
        built.append((cid, ch, hist, dm, ref.diverged))
    run = [{'id': cid, 'xml': C.render(ch, dm), 'engine': 'large', 'hist': hist} for cid, ch, hist, dm, div in built]
    res = c01lib.run_batch(binary, run)
    out = []
    for cid, ch, hist, dm, div in built:
        v, k, d = judge(ch, hist, dm, 'large', res[cid])
        if v == 'diverged':
            out.append({'id': cid, 'v': 'diverged'}); continue
        feats = ch.features()
        rec = {'id': cid, 'v': v, 'k': k, 'dm': dm, 'hash': C.chart_hash(ch) + ':' + ','.join(hist), 'nontrivial': bool(feats & NONTRIVIAL) and len(res[cid]['steps']) > 1,
               'steps': len(res[cid]['steps']), 'feats': sorted(feats)}
        if v not in ('ok', 'diverged'):
            rec['replay'] = {'xml': C.render(ch, dm), 'history': hist, 'datamodel': dm, 'engine': 'large', 'first_divergence': d}
        elif len(out) % 97 == 0:
            rec['sample'] = {'datamodel': dm, 'history': hist, 'states': len(ch.doc), 'features': sorted(feats), 'microsteps': len(res[cid]['steps'])}
        out.append(rec)
    return out


def main(tier, replay):
    chk = Check('C01', tier)
    common.build('asan')
    binary = common.harness('vdrv', 'asan')
    if replay:
        case = json.load(open(replay))['case']
        p = c01lib.run_batch(binary, [{'id': 'r', 'xml': case['xml'], 'engine': 'large', 'hist': case['history']}])['r']
        print('\n'.join(p['lines']))
        print('recorded first divergence:', json.dumps(case.get('first_divergence'), default=str)[:3000])
        sys.exit(0)
    base = chk.seed * 1000000
    cases = []
    nrand = 3000 if tier == 'quick' else 20000
    for i in range(nrand):
        for dm in ('lua', 'promela'):
            cases.append(('r%d%s' % (i, dm[0]), 'rand', base + i, dm, None))
    for i in range(nrand // 2):
        cases.append(('n%d' % i, 'rand', base + 500000 + i, 'null', None))
    for i in range(nrand // 10):
        # done.state family: parallels whose regions (with nested parallels/compounds, active or not) finish in the order the history dictates
        ch, h = C.gen_done_chart(base + 800000 + i)
        cases.append(('d%d' % i, 'fam', ch, ('lua', 'null', 'promela')[i % 3], h))
        ch, h = C.gen_hist_chart(base + 850000 + i)
        cases.append(('h%d' % i, 'fam', ch, ('lua', 'null', 'promela')[i % 3], h))
        ch, h = C.gen_multiinit_chart(base + 870000 + i)      # target sets with several members at different depths
        cases.append(('mi%d' % i, 'fam', ch, ('lua', 'null', 'promela')[i % 3], h))
        for k in range(3):
            # selection among parallel regions: domains of every size on the same event
            ch, h = C.gen_conflict_chart(base + 900000 + 3 * i + k)
            cases.append(('k%d_%d' % (i, k), 'fam', ch, ('lua', 'null', 'promela')[i % 3], h))
    # enumerated family E
    fam = list(C.family_E(2, 2)) if tier == 'quick' else list(C.family_E(3, 2))
    hists = [[], ['e1'], ['e1', 'e1']] if tier != 'quick' else [['e1', 'e1']]
    n = 0
    for ch in fam:
        for h in hists:
            for dm in (('lua', 'promela', 'null') if tier != 'quick' else ('lua', 'null')):
                cases.append(('E%d' % n, 'fam', ch, dm, h)); n += 1
    chk.add('family_E_documents', len(fam))
    chk.add('family_E_runs', n)
    chunk = 60
    jobs = [(binary, cases[i:i + chunk]) for i in range(0, len(cases), chunk)]
    verdicts = collections.Counter(); featcount = collections.Counter(); steps = 0
    for out in common.pmap(work, jobs):
        for rec in out:
            chk.count()
            verdicts[rec['v']] += 1
            if rec['v'] == 'diverged': continue
            steps += rec['steps']
            if rec['nontrivial']: chk.nontrivial(rec['hash'])
            for f in rec['feats']: featcount[f] += 1
            if 'sample' in rec: chk.sample(rec['sample'])
            if rec['v'] == 'timeout':
                chk.inconc('driver timed out on case %s' % rec['id'])
            elif rec['v'] != 'ok':
                chk.report(rec['k'] or rec['v'], rec['replay'], '%s dm=%s %s' % (rec['v'], rec['dm'], rec['k']))
    chk.exhaustive = False
    chk.add('verdicts', dict(verdicts))
    chk.add('microsteps_compared', steps)
    chk.add('feature_coverage', dict(featcount))
    chk.rule = ('seeded random valid documents (<=10 states, depth<=4, all transition/content kinds) rendered for lua, promela and null, one scripted history each, '
                'plus the enumerated family E (every document with <=%d states, <=2 transitions from the palette; exhaustive for that bound) x histories; engine large; each run '
                'compared step by step with the Appendix-D reference. distinct_nontrivial = distinct (document hash, history) whose trace has more than the initial '
                'step and whose document uses parallel/history/targetless/internal/multi-target/raise. Diverging macrosteps (>64 microsteps) are discarded and counted.'
                % (2 if tier == 'quick' else 3))
    chk.assumptions = ['vf/refscxml.py transcribes Appendix D; conventions in DESIGN.md 2.3', 'documents are valid by construction']
    chk.min_distinct = 100
    chk.finish()


if __name__ == '__main__':
    common.main_wrapper(main)
