import sys; sys.path.insert(0,'/verif')
from vf import common, chart as C, c01lib, trace as T
# usage: explore_one.py dm engine key [n]
dm,engine,key=sys.argv[1:4]; n=int(sys.argv[4]) if len(sys.argv)>4 else 1500
binary=common.harness('vdrv','asan')
best=None
cases=[];meta={}
for seed in range(n):
    ch,hist=c01lib.make_case(seed,dm); ref=c01lib.ref_run(ch,hist)
    if ref.diverged: continue
    cases.append({'id':str(seed),'xml':C.render(ch,dm),'engine':engine,'hist':hist}); meta[str(seed)]=(ch,hist,ref)
res=c01lib.run_batch(binary,cases)
for sid,(ch,hist,ref) in meta.items():
    v,k,d=c01lib.compare_case(ch,hist,dm,engine,res[sid],ref)
    if k==key and (best is None or len(ch.doc)<len(best[0].doc)): best=(ch,hist,d,sid)
ch,hist,d,sid=best
print(sid,hist); print(C.render(ch,dm))
print('REF ', d['ref'].get('ev'), d['ref'].get('before'), [a for a in d['ref']['acts'] if a[0]!='log'], 'enabled', d['ref'].get('enabled'))
print('IMPL', d['impl'].get('ev'), d['impl'].get('before'), [a for a in d['impl']['acts'] if a[0]!='log'])
