"""C05 oracle: structural relations of a chart recomputed from the source document (Rec. 3.13 / Appendix D definitions,
with uSCXML's documented pseudo-state re-sorting), and parsers for the tables embedded by the back-ends."""
import re
import xml.etree.ElementTree as ET
from vf import chart as C


class Node:
    def __init__(n, kind, sid, parent, st=None):
        n.kind, n.id, n.parent, n.st = kind, sid, parent, st
        n.children = []; n.trans = []; n.idx = None


def build(ch):
    """nodes in uSCXML document order (initial first, then histories, then the rest), transitions in post-fix order"""
    def mk(s, parent):
        n = Node(s.kind, s.id, parent, s)
        if s.initial_elem:
            i = Node('initial', None, n); i.trans = [('init', s.initial_elem[0])]
            n.children.append(i)
        hs = [c for c in s.children if c.kind == 'history']
        for h in reversed(hs):
            n.children.append(mk(h, n))
        for c in s.children:
            if c.kind != 'history': n.children.append(mk(c, n))
        n.trans = n.trans or [('t', t) for t in s.trans]
        return n
    root = mk(ch.root, None)
    nodes = []

    def pre(n):
        n.idx = len(nodes); nodes.append(n)
        for c in n.children: pre(c)
    pre(root)
    byid = dict((n.id, n) for n in nodes if n.id)
    trans = []   # post-fix

    def post(n):
        for c in n.children: post(c)
        for k, t in n.trans:
            trans.append({'src': n, 'kind': k, 't': t, 'targets': [byid[x] for x in (t if k == 'init' else t.targets)],
                          'internal': (k == 't' and t.internal), 'pseudo': n.kind in ('initial', 'history')})
    post(root)
    return nodes, trans, byid


def is_desc(a, b):
    p = a.parent
    while p is not None:
        if p is b: return True
        p = p.parent
    return False


def proper(n):
    return n.kind in ('state', 'parallel', 'final', 'scxml')


def is_compound(n):
    return n.kind in ('state', 'scxml') and any(proper(c) for c in n.children)


def expected(ch):
    nodes, trans, byid = build(ch)
    N = len(nodes)
    st = []
    for n in nodes:
        anc = set(); p = n.parent
        while p is not None: anc.add(p.idx); p = p.parent
        children = set(c.idx for c in n.children)
        if n.kind == 'history':
            par = n.parent
            if n.st.htype == 'deep': comp = set(x.idx for x in nodes if is_desc(x, par) and proper(x))
            else: comp = set(c.idx for c in par.children if proper(c))
        elif n.kind == 'parallel':
            comp = set(c.idx for c in n.children if proper(c))
        elif n.kind in ('state', 'scxml') and is_compound(n):
            if n.st.initial_attr: comp = set(byid[x].idx for x in n.st.initial_attr)
            elif n.st.initial_elem: comp = set([n.children[0].idx])
            else: comp = set([[c for c in n.children if proper(c)][0].idx])
        else:
            comp = set()
        st.append({'idx': n.idx, 'id': n.id, 'kind': n.kind, 'parent': n.parent.idx if n.parent else 0, 'anc': anc, 'children': children, 'completion': comp})

    def domain(t):
        if not t['targets']: return None
        src = t['src']
        if t['internal'] and is_compound(src) and all(is_desc(x, src) for x in t['targets']): return src
        p = src.parent
        while p is not None:
            if (is_compound(p)) and all(is_desc(x, p) for x in t['targets']): return p
            p = p.parent
        return nodes[0]
    tr = []
    for i, t in enumerate(trans):
        d = domain(t)
        ex = set(x.idx for x in nodes if d is not None and is_desc(x, d) and proper(x))
        tr.append({'postfix': i, 'src': t['src'].idx, 'targets': set(x.idx for x in t['targets']), 'exit': ex, 'pseudo': t['pseudo'], 'domain': d.idx if d else None})
    for i, a in enumerate(tr):
        a['conflicts'] = set()
        for j, b in enumerate(tr):
            sa, sb = nodes[a['src']], nodes[b['src']]
            if (a['exit'] & b['exit']) or sa is sb or is_desc(sa, sb) or is_desc(sb, sa):
                a['conflicts'].add(j)
    return {'states': st, 'trans': tr, 'nodes': nodes}


def bits(s):
    return set(i for i, c in enumerate(s) if c == '1')


def parse_annotated(text):
    text = re.sub(r'^<\?xml[^>]*\?>', '', text.lstrip('﻿').lstrip())
    root = ET.fromstring(text)
    st = {}; tr = {}

    def local(e): return e.tag.split('}')[-1]
    for e in root.iter():
        if 'ancBools' in e.attrib:
            i = int(e.attrib['documentOrder'])
            st[i] = {'idx': i, 'id': e.attrib.get('id'), 'kind': local(e), 'parent': int(e.attrib.get('parent', 0)), 'anc': bits(e.attrib['ancBools']),
                     'children': bits(e.attrib['childBools']), 'completion': bits(e.attrib['completionBools'])}
        elif 'conflictBools' in e.attrib:
            i = int(e.attrib['postFixOrder'])
            tr[i] = {'postfix': i, 'src': int(e.attrib['source']), 'targets': bits(e.attrib.get('targetBools', '')), 'exit': bits(e.attrib['exitSetBools']),
                     'conflicts': bits(e.attrib['conflictBools']), 'doc': int(e.attrib['documentOrder'])}
    return {'states': [st[i] for i in sorted(st)], 'trans': [tr[i] for i in sorted(tr)]}


def hexbits(txt):
    """'{ 0x7b, 0x03 /* 1101111011 */ }' -> (set from hex bytes, set from the comment bit string)"""
    hx = [int(x, 16) for x in re.findall(r'0x([0-9a-fA-F]+)', txt)]
    s = set()
    for bi, b in enumerate(hx):
        for k in range(8):
            if b & (1 << k): s.add(bi * 8 + k)
    m = re.search(r'/\*\s*([01]+)\s*\*/', txt)
    return s, (bits(m.group(1)) if m else None)


def parse_c(text):
    st = []; tr = []
    for m in re.finditer(r'/\* state number (\d+) \*/(.*?)\n    \}', text, re.S):
        body = m.group(2)
        d = {'idx': int(m.group(1))}
        d['parent'] = int(re.search(r'/\* parent\s+\*/\s*(\d+)', body).group(1))
        for k, lab in (('children', 'children'), ('completion', 'completion'), ('anc', 'ancestors')):
            mm = re.search(r'/\* %s\s*\*/\s*(\{[^}]*\})' % lab, body)
            d[k], d[k + '_comment'] = hexbits(mm.group(1))
        st.append(d)
    for m in re.finditer(r'/\* transition number (\d+) with priority (\d+)(.*?)\n    \}', text, re.S):
        body = m.group(3)
        d = {'doc': int(m.group(1)), 'postfix': int(m.group(2))}
        d['src'] = int(re.search(r'/\* source\s+\*/\s*(\d+)', body).group(1))
        for k, lab in (('targets', 'target'), ('conflicts', 'conflicts'), ('exit', 'exit set')):
            mm = re.search(r'/\* %s\s*\*/\s*(\{[^}]*\})' % lab, body)
            d[k], d[k + '_comment'] = hexbits(mm.group(1))
        tr.append(d)
    tr.sort(key=lambda x: x['postfix'])
    return {'states': st, 'trans': tr}


def parse_pml(text):
    st = {}; tr = {}
    for m in re.finditer(r'(\w+?)_states\[(\d+)\]\.(\w+)(?:\[(\d+)\])? = (\w+);', text):
        i = int(m.group(2)); d = st.setdefault(i, {'idx': i, 'children': set(), 'completion': set(), 'anc': set(), 'parent': 0})
        f = m.group(3)
        if f == 'parent': d['parent'] = int(m.group(5))
        elif f in ('children', 'completion'): d[f].add(int(m.group(4)))
        elif f == 'ancestors': d['anc'].add(int(m.group(4)))
    for m in re.finditer(r'(\w+?)_transitions\[(\d+)\]\.(\w+)(?:\[(\w+)\])? = (\w+);', text):
        i = int(m.group(2)); d = tr.setdefault(i, {'postfix': i, 'targets': set(), 'conflicts': set(), 'exit': set(), 'src': 0})
        f = m.group(3)
        if f == 'source': d['src'] = int(m.group(5))
        elif f == 'target': d['targets'].add(int(m.group(4)))
        elif f == 'conflicts': d['conflicts'].add(int(m.group(4)))
        elif f == 'exit_set': d['exit'].add(int(m.group(4)))
    return {'states': [st[i] for i in sorted(st)], 'trans': [tr[i] for i in sorted(tr)]}


def compare(exp, got, what, nodes=None):
    """-> list of (table, index, field, expected, got)"""
    out = []
    if len(exp['states']) != len(got['states']): out.append((what, -1, 'nr-states', len(exp['states']), len(got['states']))); return out
    if len(exp['trans']) != len(got['trans']): out.append((what, -1, 'nr-transitions', len(exp['trans']), len(got['trans']))); return out
    prop = set(s['idx'] for s in exp['states'] if s['kind'] in ('state', 'parallel', 'final', 'scxml'))
    for e, g in zip(exp['states'], got['states']):
        if e['parent'] != g['parent']: out.append((what, e['idx'], 'parent', e['parent'], g['parent']))
        for f in ('anc', 'children', 'completion'):
            if e['kind'] == 'initial' and f == 'completion': continue
            gv = g[f] & prop if (f == 'completion' and e['kind'] == 'history') else g[f]   # pseudo-state bits of a history completion: do not care
            if e[f] != gv: out.append((what, e['idx'], f + ':' + e['kind'], sorted(e[f]), sorted(gv)))
    real = set(t['postfix'] for t in exp['trans'] if not t['pseudo'])
    for e, g in zip(exp['trans'], got['trans']):
        if e['src'] != g['src']: out.append((what, e['postfix'], 'source', e['src'], g['src']))
        if e['targets'] != g['targets']: out.append((what, e['postfix'], 'target', sorted(e['targets']), sorted(g['targets'])))
        if e['pseudo']: continue
        if e['exit'] != (g['exit'] & prop): out.append((what, e['postfix'], 'exit-set', sorted(e['exit']), sorted(g['exit'])))
        if (e['conflicts'] & real) != (g['conflicts'] & real): out.append((what, e['postfix'], 'conflicts', sorted(e['conflicts'] & real), sorted(g['conflicts'] & real)))
    return out


def parse_vhdl(text):
    """exit sets and (lower post-fix index) conflicts as embedded in the emitted equations"""
    ex = {}    # transition -> set(states)
    conf = {}  # transition -> set(lower transitions it yields to)
    nstates = 0
    for m in re.finditer(r'in_exit_set_(\d+)_sig <=(.*?);', text, re.S):
        s = int(m.group(1)); nstates = max(nstates, s + 1)
        for t in re.findall(r'in_optimal_transition_set_(\d+)_sig', m.group(2)):
            ex.setdefault(int(t), set()).add(s)
    ntrans = 0
    for m in re.finditer(r' in_optimal_transition_set_(\d+)_sig <=(.*?);', text, re.S):
        t = int(m.group(1)); ntrans = max(ntrans, t + 1)
        body = m.group(2)
        k = body.rfind('not')
        conf[t] = set(int(x) for x in re.findall(r'in_optimal_transition_set_(\d+)_sig', body[k:] if k >= 0 else ''))
    return {'exit': ex, 'conflicts_lower': conf, 'nstates': nstates, 'ntrans': ntrans}
