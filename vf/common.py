"""Common machinery for all checks: builds, harness compilation, verdicts, evidence, known findings.

Exit codes: 0 held (possibly with KNOWN-FINDING lines), 1 violated (VIOLATION line printed),
2 inconclusive / harness failure (never prints a VIOLATION line).
"""
import os, sys, json, time, subprocess, hashlib, random, shutil, re, tempfile, signal, collections
import concurrent.futures

VERIF = os.path.dirname(os.path.dirname(os.path.abspath(__file__)))
REPO = os.environ.get('VERIF_REPO', '/repo')
BUILD_ROOT = os.environ.get('VERIF_BUILD_ROOT', os.path.join(VERIF, '.build'))
NPROC = int(os.environ.get('VERIF_JOBS', str(os.cpu_count() or 4)))
SCRATCH_ROOT = os.path.join(BUILD_ROOT, 'scratch')

ASAN_ENV = {
    'ASAN_OPTIONS': 'abort_on_error=1:detect_leaks=0:handle_segv=1:allocator_may_return_null=1:detect_stack_use_after_return=0',
    'UBSAN_OPTIONS': 'halt_on_error=1:print_stacktrace=1',
    'USCXML_NOCACHE_FILES': '1',
}


class Inconclusive(Exception):
    pass


def seed_from_env():
    try:
        return int(os.environ.get('VERIF_SEED', '1'))
    except ValueError:
        return 1


def build(flavour, targets=None):
    """(Re)build uSCXML from the current working tree into .build/<flavour>."""
    cmd = [os.path.join(VERIF, 'bin', 'vbuild'), flavour] + (targets or [])
    env = dict(os.environ, VERIF_REPO=REPO, VERIF_BUILD_ROOT=BUILD_ROOT)
    p = subprocess.run(cmd, env=env, capture_output=True, text=True)
    if p.returncode != 0:
        raise Inconclusive('build of flavour %s failed:\n%s' % (flavour, (p.stderr or p.stdout)[-3000:]))
    return os.path.join(BUILD_ROOT, flavour)


SAN_FLAGS = {
    'asan': ['-fsanitize=address,undefined', '-fno-sanitize=enum,vptr', '-fno-sanitize-recover=undefined', '-fno-omit-frame-pointer'],
    'tsan': ['-fsanitize=thread', '-fno-omit-frame-pointer'],
    'plain': [],
}


def harness(name, flavour, extra_src=(), extra_flags=(), transform=False):
    """Compile /verif/harness/<name>.cpp against the flavour's library; returns the binary path."""
    b = os.path.join(BUILD_ROOT, flavour)
    src = os.path.join(VERIF, 'harness', name + '.cpp')
    out = os.path.join(b, 'hbin', name)
    os.makedirs(os.path.dirname(out), exist_ok=True)
    deps = [src] + [os.path.join(VERIF, 'harness', s) for s in extra_src]
    deps += [os.path.join(VERIF, 'harness', f) for f in os.listdir(os.path.join(VERIF, 'harness')) if f.endswith('.h')]
    libs = [os.path.join(b, 'lib', 'libuscxml.so')] + ([os.path.join(b, 'lib', 'libuscxml_transform.so')] if transform else [])
    newest = max(os.path.getmtime(p) for p in deps + libs)
    if os.path.exists(out) and os.path.getmtime(out) >= newest:
        return out
    cmd = ['c++', '-DUSCXML_EXPORT', '-DXERCESC_NS=xercesc_3_2', '-DUSCXML_VERIF', '-I' + REPO + '/src', '-I' + REPO + '/contrib/src', '-I' + b,
           '-I' + REPO + '/contrib/src/jsmn', '-I' + REPO + '/contrib/src/evws', '-I' + REPO + '/contrib/src/uriparser/include',
           '-I/usr/include/lua5.3', '-I' + REPO + '/contrib/src/LuaBridge', '-I' + os.path.join(VERIF, 'harness'),
           '-w', '-std=gnu++11', '-O1', '-g', '-DNDEBUG'] + SAN_FLAGS[flavour] + list(extra_flags) + \
          [src] + [os.path.join(VERIF, 'harness', s) for s in extra_src if s.endswith(('.cpp', '.c'))] + \
          ['-o', out + '.tmp', '-rdynamic', '-Wl,-rpath,' + os.path.join(b, 'lib')] + \
          ([os.path.join(b, 'lib', 'libuscxml_transform.so')] if transform else []) + \
          [os.path.join(b, 'lib', 'libuscxml.so'), '-llua5.3', '-lm', '-lxerces-c', '-levent', '-levent_pthreads', '-levent_core', '-lpthread', '-ldl']
    p = subprocess.run(cmd, capture_output=True, text=True)
    if p.returncode != 0:
        raise Inconclusive('harness %s (%s) failed to compile:\n%s' % (name, flavour, p.stderr[-4000:]))
    os.replace(out + '.tmp', out)
    return out


def scratch(tag):
    d = os.path.join(SCRATCH_ROOT, '%s.%d' % (tag, os.getpid()))
    shutil.rmtree(d, ignore_errors=True)
    os.makedirs(d)
    return d


def run_proc(cmd, inp=None, timeout=120, env=None, cwd=None, text=True):
    """Run a subprocess with a watchdog. Returns (rc, stdout, stderr, timed_out)."""
    e = dict(os.environ)
    e.update(ASAN_ENV)
    if env:
        e.update(env)
    try:
        p = subprocess.run(cmd, input=inp, capture_output=True, text=text, timeout=timeout, env=e, cwd=cwd,
                           errors='replace' if text else None)
        return p.returncode, p.stdout, p.stderr, False
    except subprocess.TimeoutExpired as ex:
        so = ex.stdout or ('' if text else b'')
        se = ex.stderr or ('' if text else b'')
        if text and isinstance(so, bytes): so = so.decode('utf-8', 'replace')
        if text and isinstance(se, bytes): se = se.decode('utf-8', 'replace')
        return None, so, se, True


def pmap(fn, items, workers=None, chunksize=1):
    workers = workers or NPROC
    if workers <= 1 or len(items) <= 1:
        return [fn(i) for i in items]
    with concurrent.futures.ProcessPoolExecutor(workers) as ex:
        return list(ex.map(fn, items, chunksize=chunksize))


def sanitizer_summary(stderr):
    """Short, stable signature of a sanitizer report / crash found in stderr (or None)."""
    if not stderr:
        return None
    m = re.search(r'(ERROR: AddressSanitizer: [\w-]+|runtime error: [^\n]{0,120}|ERROR: ThreadSanitizer: [\w -]+|terminate called[^\n]*|Assertion [^\n]*failed)', stderr)
    if not m:
        return None
    kind = re.sub(r'0x[0-9a-fA-F]+', '0xADDR', m.group(1))      # addresses differ from run to run: keep finding keys stable
    frames = re.findall(r'#\d+ 0x[0-9a-f]+ in ([^\s(]+)[^\n]*?(/repo/src/[^\s:]+|/repo/contrib/[^\s:]+)?', stderr[m.start():m.start() + 6000])
    fr = [f for f, _ in frames if not f.startswith(('__interceptor', '__asan', '__ubsan', '__sanitizer', 'operator new', 'operator delete', 'malloc', 'free'))][:3]
    return kind + ' @ ' + ' < '.join(fr)


# ------------------------------------------------------------------------------------------------
class Known:
    """known_findings.txt: 'property=<id> key=<key> witness=<path> :: text'  and  'fixed: property=<id> <commit> text'"""
    def __init__(self):
        self.by_prop = collections.defaultdict(dict)
        self.fixed = []
        p = os.path.join(VERIF, 'known_findings.txt')
        if os.path.exists(p) and not os.environ.get('VERIF_IGNORE_KNOWN'):   # VERIF_IGNORE_KNOWN: maintenance only (to regenerate witnesses)
            for ln in open(p):
                ln = ln.strip()
                if not ln or ln.startswith('#'):
                    continue
                if ln.startswith('fixed:'):
                    self.fixed.append(ln); continue
                m = re.match(r'property=(\S+) key=(\S+)(?: witness=(\S+))? :: (.*)$', ln)
                if m:
                    self.by_prop[m.group(1)][m.group(2)] = (m.group(3), m.group(4))

    def lookup(self, prop, key):
        return self.by_prop.get(prop, {}).get(key)


class Check:
    """Verdict + evidence bookkeeping for one run of one property's check."""
    def __init__(self, prop, tier, level='exploration'):
        self.prop, self.tier, self.level = prop, tier, level
        self.seed = seed_from_env()
        self.t0 = time.time()
        self.rng = random.Random(self.seed * 1000003 + sum(map(ord, prop)))
        self.evaluations = 0
        self.distinct = set()
        self.samples = []
        self.extra = {}
        self.assumptions = []
        self.rule = ''
        self.violations = []          # (key, replay path, msg)
        self.known_hits = collections.Counter()
        self.known_text = {}
        self.inconclusive = []
        self.exhaustive = None
        self.known = Known()
        self.replay_dir = os.path.join(VERIF, 'replay', prop)
        if '--replay' not in sys.argv:      # a replay run must not delete the file it is replaying
            shutil.rmtree(self.replay_dir, ignore_errors=True)
        os.makedirs(self.replay_dir, exist_ok=True)
        self.min_distinct = 2

    # -- counting
    def count(self, n=1):
        self.evaluations += n

    def nontrivial(self, key):
        self.distinct.add(key if isinstance(key, (str, int, tuple)) else hashlib.md5(json.dumps(key, sort_keys=True, default=str).encode()).hexdigest())

    def sample(self, obj, limit=6):
        if len(self.samples) < limit:
            self.samples.append(obj)

    def add(self, key, n=1):
        if isinstance(n, (int, float)) and not isinstance(n, bool):
            self.extra[key] = self.extra.get(key, 0) + n
        else:
            self.extra[key] = n

    # -- verdicts
    def report(self, key, replay_obj, msg='', n=1):
        """A deviation from the oracle with finding key `key`. Known key -> KNOWN-FINDING, else VIOLATION."""
        k = self.known.lookup(self.prop, key)
        if k is not None:
            self.known_hits[key] += n
            self.known_text[key] = k[1]
            return False
        if sum(1 for v in self.violations if v[0] == key) < 3:
            h = hashlib.md5((key + json.dumps(replay_obj, sort_keys=True, default=str)).encode()).hexdigest()[:12]
            path = os.path.join(self.replay_dir, '%s-%s.json' % (re.sub(r'[^\w.-]+', '_', key)[:60], h))
            with open(path, 'w') as f:
                json.dump({'property': self.prop, 'key': key, 'msg': msg, 'seed': self.seed, 'tier': self.tier, 'case': replay_obj}, f, indent=1, default=str)
            self.violations.append((key, path, msg))
        else:
            self.violations.append((key, [v[1] for v in self.violations if v[0] == key][0], msg))
        return True

    def inconc(self, why):
        self.inconclusive.append(why)

    def finish(self):
        wall = time.time() - self.t0
        if not self.samples:
            # the evidence must show something that was actually observed: fall back to the counters the check kept (and to a violation, if any)
            self.samples.append({'note': 'the check recorded no clean sample', 'counters': {k: v for k, v in list(self.extra.items())[:8]},
                                 'first_violation': (self.violations[0][0] if self.violations else None)})
        cov = {
            'evaluations': int(self.evaluations),
            'distinct_nontrivial': len(self.distinct),
            'rule': self.rule,
            'samples': self.samples,
        }
        if self.exhaustive is not None:
            cov['exhaustive'] = bool(self.exhaustive)
        cov.update(self.extra)
        cov['known_findings_met'] = dict(self.known_hits)
        if self.inconclusive:
            cov['inconclusive'] = self.inconclusive[:20]
        vkeys = collections.Counter(k for k, _, _ in self.violations)
        if vkeys:
            cov['violation_keys'] = dict(vkeys)
        ev = {'property_id': self.prop, 'tier': self.tier, 'seed': self.seed, 'level': self.level, 'coverage': cov,
              'assumptions': self.assumptions, 'wall_s': round(wall, 2), 'violations': len(self.violations)}
        os.makedirs(os.path.join(VERIF, 'evidence'), exist_ok=True)
        with open(os.path.join(VERIF, 'evidence', self.prop + '.json'), 'w') as f:
            json.dump(ev, f, indent=1, default=str)
        for key, n in sorted(self.known_hits.items()):
            print('KNOWN-FINDING: property=%s %s: %s (n=%d)' % (self.prop, key, self.known_text[key], n))
        seen = set()
        for key, path, msg in self.violations:
            if key in seen:
                continue
            seen.add(key)
            print('VIOLATION property=%s replay=%s key=%s n=%d %s' % (self.prop, path, key, vkeys[key], msg[:300].replace('\n', ' ')))
        print('%s %s: evaluations=%d distinct_nontrivial=%d violations=%d known=%d wall=%.1fs' % (
            self.prop, self.tier, self.evaluations, len(self.distinct), len(self.violations), sum(self.known_hits.values()), wall))
        if self.violations:
            sys.exit(1)
        if self.inconclusive:
            print('INCONCLUSIVE property=%s: %s' % (self.prop, '; '.join(self.inconclusive[:5])))
            sys.exit(2)
        if len(self.distinct) < self.min_distinct or self.evaluations < 1:
            print('INCONCLUSIVE property=%s: observed too little (distinct_nontrivial=%d < %d)' % (self.prop, len(self.distinct), self.min_distinct))
            sys.exit(2)
        sys.exit(0)


def main_wrapper(fn):
    """Run a check main(tier, replay) turning harness failures into exit 2."""
    import argparse
    ap = argparse.ArgumentParser()
    ap.add_argument('tier', nargs='?', default=os.environ.get('VERIF_TIER', 'quick'))
    ap.add_argument('--replay')
    a = ap.parse_args()
    try:
        fn(a.tier, a.replay)
    except Inconclusive as e:
        print('INCONCLUSIVE (harness failure): %s' % e)
        sys.exit(2)
    except SystemExit:
        raise
    except Exception:
        import traceback
        traceback.print_exc()
        print('INCONCLUSIVE (harness exception)')
        sys.exit(2)
