"""Python mirror of harness/vdata.h: uscxml::Data trees / events as plain Python values and their wire format.

A node is a tuple (type, atom, array, compound):  type 'V' (VERBATIM) or 'I' (INTERPRETED), atom bytes,
array list of nodes, compound dict bytes -> node.  flags (DOM node / binary) are only ever produced by the harness.
"""
import binascii


def hx(b):
    return binascii.hexlify(b).decode() if b else '-'


def unhx(s):
    return b'' if s == '-' else binascii.unhexlify(s)


def node(t='I', a=b'', arr=None, mp=None):
    return (t, a, arr if arr is not None else [], mp if mp is not None else {})


EMPTY = ('I', b'', [], {})


def S(b):
    """string atom"""
    return ('V', b, [], {})


def N(txt):
    """number (or other literal) atom"""
    return ('I', txt if isinstance(txt, bytes) else txt.encode(), [], {})


def A(items):
    return ('I', b'', list(items), {})


def M(d):
    return ('I', b'', [], dict(d))


def enc(n, out=None):
    top = out is None
    if top:
        out = []
    t, a, arr, mp = n[0], n[1], n[2], n[3]
    out.append('D %s %s %d %d -' % (t, hx(a), len(arr), len(mp)))
    for c in arr:
        enc(c, out)
    for k in sorted(mp):
        out.append(hx(k))
        enc(mp[k], out)
    return ' '.join(out) if top else None


def dec(toks, i=0):
    """-> (node5, next index); node5 = (type, atom, array, compound, flags)"""
    if toks[i] != 'D':
        raise ValueError('expected D at %d: %r' % (i, toks[i:i + 3]))
    t, a, na, nm, fl = toks[i + 1], unhx(toks[i + 2]), int(toks[i + 3]), int(toks[i + 4]), toks[i + 5]
    i += 6
    arr, mp = [], {}
    for _ in range(na):
        c, i = dec(toks, i)
        arr.append(c)
    for _ in range(nm):
        k = unhx(toks[i])
        c, i = dec(toks, i + 1)
        mp[k] = c
    return (t, a, arr, mp, '' if fl == '-' else fl), i


def is_empty(n):
    return not n[1] and not n[2] and not n[3]


def is_atom(n):
    return not n[2] and not n[3] and (n[1] or n[0] == 'V')


def size(n):
    return 1 + sum(size(c) for c in n[2]) + sum(size(c) for c in n[3].values())


def depth(n):
    return 1 + max([depth(c) for c in n[2]] + [depth(c) for c in n[3].values()] + [0])


def strings(n):
    """all atoms and keys (bytes) of a tree"""
    if n[1]:
        yield n[1]
    for c in n[2]:
        yield from strings(c)
    for k, c in n[3].items():
        yield k
        yield from strings(c)


def to_jsonable(n):
    """JSON-serialisable form for replay files"""
    return {'t': n[0], 'a': hx(n[1]), 'arr': [to_jsonable(c) for c in n[2]], 'map': [[hx(k), to_jsonable(n[3][k])] for k in sorted(n[3])],
            **({'flags': n[4]} if len(n) > 4 and n[4] else {})}


def from_jsonable(j):
    return (j['t'], unhx(j['a']), [from_jsonable(c) for c in j['arr']], {unhx(k): from_jsonable(c) for k, c in j['map']})


def show(n, lim=200):
    """compact human readable rendering (for messages only)"""
    def r(n):
        parts = []
        if n[3]:
            parts.append('{' + ', '.join('%r: %s' % (k, r(n[3][k])) for k in sorted(n[3])) + '}')
        if n[2]:
            parts.append('[' + ', '.join(r(c) for c in n[2]) + ']')
        if n[1] or not parts:
            parts.append(('str' if n[0] == 'V' else 'lit') + repr(n[1])[1:] if (n[1] or n[0] == 'V') else '<empty>')
        if len(n) > 4 and n[4]:
            parts.append('<flags %s>' % n[4])
        return '+'.join(parts)
    s = r(n)
    return s if len(s) <= lim else s[:lim] + '...'


def first_diff(exp, obs, path='$'):
    """First structural difference between an expected tree and an observed one, or None.
    Returns (path, what, expected_subtree, observed_subtree). Container nodes are compared by members only; the type tag is
    compared on atoms (a string "5" is not the number 5)."""
    if len(obs) > 4 and obs[4]:
        return (path, 'flags', exp, obs)
    if exp[1] != obs[1]:
        return (path, 'atom', exp, obs)
    if exp[0] != obs[0] and (exp[1] or not (exp[2] or exp[3]) or not (obs[2] or obs[3])):
        return (path, 'type', exp, obs)      # childless nodes: "" (V) vs nothing (I), "5" (V) vs 5 (I)
    if len(exp[2]) != len(obs[2]):
        return (path, 'array-length', exp, obs)
    if set(exp[3]) != set(obs[3]):
        return (path, 'map-keys', exp, obs)
    for i, (a, b) in enumerate(zip(exp[2], obs[2])):
        d = first_diff(a, b, '%s[%d]' % (path, i))
        if d:
            return d
    for k in sorted(exp[3]):
        d = first_diff(exp[3][k], obs[3][k], '%s{%s}' % (path, hx(k)))
        if d:
            return d
    return None


# ---- events -----------------------------------------------------------------------------------------------------------
EV_FIELDS = ('name', 'sendid', 'invokeid', 'raw', 'origin', 'origintype')


def enc_event(e):
    out = ['EV'] + [hx(e[f]) for f in EV_FIELDS] + [str(e['eventType']), '1' if e['hideSendId'] else '0', str(len(e['params'])), str(len(e['namelist']))]
    out.append(enc(e['data']))
    for k, v in e['params']:
        out += [hx(k), enc(v)]
    for k in sorted(e['namelist']):
        out += [hx(k), enc(e['namelist'][k])]
    return ' '.join(out)


def dec_event(toks, i=0):
    if toks[i] != 'EV':
        raise ValueError('expected EV')
    e = {}
    for j, f in enumerate(EV_FIELDS):
        e[f] = unhx(toks[i + 1 + j])
    e['eventType'] = int(toks[i + 7])
    e['hideSendId'] = toks[i + 8] == '1'
    np_, nn = int(toks[i + 9]), int(toks[i + 10])
    e['data'], i = dec(toks, i + 11)
    e['params'] = []
    for _ in range(np_):
        k = unhx(toks[i])
        v, i = dec(toks, i + 1)
        e['params'].append((k, v))
    e['namelist'] = {}
    for _ in range(nn):
        k = unhx(toks[i])
        v, i = dec(toks, i + 1)
        e['namelist'][k] = v
    return e, i


def event_jsonable(e):
    return {**{f: hx(e[f]) for f in EV_FIELDS}, 'eventType': e['eventType'], 'hideSendId': e['hideSendId'], 'data': to_jsonable(e['data']),
            'params': [[hx(k), to_jsonable(v)] for k, v in e['params']], 'namelist': [[hx(k), to_jsonable(e['namelist'][k])] for k in sorted(e['namelist'])]}


def event_from_jsonable(j):
    e = {f: unhx(j[f]) for f in EV_FIELDS}
    e.update(eventType=j['eventType'], hideSendId=j['hideSendId'], data=from_jsonable(j['data']),
             params=[(unhx(k), from_jsonable(v)) for k, v in j['params']], namelist={unhx(k): from_jsonable(v) for k, v in j['namelist']})
    return e
