"""C16 value domain: the values Lua represents unambiguously, their renderings (Lua source, uscxml::Data), the denotation of a
Data tree that comes back, and the comparison.

Python value model:  bytes = string, int / float = number, bool, list = array, dict (bytes keys, non-numeric) = map.
Not generated (outside the statement): nil, maps with numeric keys, mixed tables, functions, userdata, NUL bytes, inf/nan.
"""
import math, re
from fractions import Fraction
from vf import dtree

KEYWORDS = {'and', 'break', 'do', 'else', 'elseif', 'end', 'false', 'for', 'function', 'goto', 'if', 'in', 'local', 'nil', 'not', 'or', 'repeat', 'return', 'then', 'true', 'until', 'while'}


# ---------------------------------------------------------------------------------------------------- rendering
def lua_string(b, rng=None):
    """Lua string literal in printable ASCII only (so that it survives XML attributes and text unchanged)"""
    if rng is not None and b and rng.random() < 0.15 and all(32 <= c < 127 for c in b) and b']' not in b and b[0:1] != b'\n':
        return '[[' + b.decode() + ']]'
    q = "'" if (rng is not None and rng.random() < 0.3) else '"'
    o = [q]
    for c in b:
        ch = chr(c)
        if ch == q or ch == '\\':
            o.append('\\' + ch)
        elif 32 <= c < 127:
            o.append(ch)
        else:
            o.append('\\%03d' % c)
    o.append(q)
    return ''.join(o)


def lua_number(x):
    if isinstance(x, int):
        return str(x)
    r = repr(x)
    return r


def lua_literal(v, rng=None):
    if isinstance(v, bool):
        return 'true' if v else 'false'
    if isinstance(v, bytes):
        return lua_string(v, rng)
    if isinstance(v, (int, float)):
        return lua_number(v)
    if isinstance(v, list):
        return '{' + ', '.join(lua_literal(x, rng) for x in v) + '}'
    if isinstance(v, dict):
        parts = []
        for k in sorted(v):
            ks = k.decode('latin-1')
            if rng is not None and rng.random() < 0.4 and re.match(r'^[A-Za-z_][A-Za-z0-9_]*$', ks) and ks not in KEYWORDS:
                parts.append('%s=%s' % (ks, lua_literal(v[k], rng)))
            else:
                parts.append('[%s]=%s' % (lua_string(k), lua_literal(v[k], rng)))
        return '{' + ', '.join(parts) + '}'
    raise TypeError(v)


def data_expressible(v):
    """uscxml::Data has no empty array/map distinct from 'no value', so values containing one cannot be handed over as Data"""
    if isinstance(v, (list, dict)):
        if not v:
            return False
        return all(data_expressible(x) for x in (v if isinstance(v, list) else v.values()))
    return True


def to_data(v):
    if isinstance(v, bool):
        return dtree.N('true' if v else 'false')
    if isinstance(v, bytes):
        return dtree.S(v)
    if isinstance(v, (int, float)):
        return dtree.N(lua_number(v))
    if isinstance(v, list):
        return dtree.A([to_data(x) for x in v])
    if isinstance(v, dict):
        return dtree.M({k: to_data(x) for k, x in v.items()})
    raise TypeError(v)


# ---------------------------------------------------------------------------------------------------- denotation of what comes back
class Nil:
    def __repr__(self):
        return 'nil'


NIL = Nil()


class Odd:
    """something that denotes no value of the domain (expression text, node, both array and map, ...)"""
    def __init__(self, what):
        self.what = what

    def __repr__(self):
        return '<odd %s>' % (self.what,)


NUM_RE = re.compile(r'^[-+]?(\d+\.?\d*([eE][-+]?\d+)?|\.\d+([eE][-+]?\d+)?|0[xX][0-9a-fA-F]+)$')


def parse_number(txt):
    """exact value (Fraction) of a number text, or None"""
    if not NUM_RE.match(txt):
        return None
    if 'x' in txt.lower():
        return Fraction(int(txt, 16))
    if re.match(r'^[-+]?\d+$', txt):
        return Fraction(int(txt))
    f = float(txt)
    if math.isinf(f) or math.isnan(f):
        return None
    return Fraction(f)


def denote(n):
    """Data tree (dtree node, possibly with flags) -> value / NIL / Odd.  An empty node denotes NIL (no value / empty container)."""
    if len(n) > 4 and n[4]:
        return Odd('node-or-binary')
    t, a, arr, mp = n[:4]
    pop = (1 if a else 0) + (1 if arr else 0) + (1 if mp else 0)
    if pop > 1:
        return Odd('atom/array/map mixed')
    if mp:
        return {k: denote(c) for k, c in mp.items()}
    if arr:
        return [denote(c) for c in arr]
    if t == 'V':
        return a
    if not a:
        return NIL
    txt = a.decode('latin-1')
    if txt == 'true':
        return True
    if txt == 'false':
        return False
    if txt == 'nil':
        return NIL
    if txt == '{}':
        return []      # Data has no empty container; the datamodel hands an empty table over as the interpreted expression {} (since the fix of getLuaAsData)
    q = parse_number(txt)
    if q is not None:
        return q
    return Odd('expression %r' % txt[:40])


def exact(v):
    return Fraction(v) if isinstance(v, (int, float)) and not isinstance(v, bool) else v


def first_diff(exp, obs, path='$'):
    """exp: domain value; obs: denotation. -> None | (path, expected, observed, what)"""
    if isinstance(exp, bool):
        return None if (isinstance(obs, bool) and obs == exp) else (path, exp, obs, 'bool')
    if isinstance(exp, bytes):
        return None if (isinstance(obs, bytes) and obs == exp) else (path, exp, obs, 'string')
    if isinstance(exp, (int, float)):
        return None if (isinstance(obs, Fraction) and obs == Fraction(exp)) else (path, exp, obs, 'number')
    if isinstance(exp, list):
        if not exp:
            return None if (obs is NIL or obs == [] or obs == {}) else (path, exp, obs, 'empty-container')
        if not isinstance(obs, list):
            return (path, exp, obs, 'array')
        for i, x in enumerate(exp):
            if i >= len(obs):
                return ('%s[%d]' % (path, i + 1), x, NIL, 'array-shorter')
            d = first_diff(x, obs[i], '%s[%d]' % (path, i + 1))
            if d:
                return d
        if len(obs) > len(exp):
            return ('%s[%d]' % (path, len(exp) + 1), NIL, obs[len(exp)], 'array-longer')
        return None
    if isinstance(exp, dict):
        if not exp:
            return None if (obs is NIL or obs == [] or obs == {}) else (path, exp, obs, 'empty-container')
        if not isinstance(obs, dict):
            return (path, exp, obs, 'map')
        for k in sorted(exp):
            if k not in obs:
                return ('%s.%s' % (path, k.decode('latin-1')), exp[k], NIL, 'map-key-missing')
            d = first_diff(exp[k], obs[k], '%s.%s' % (path, k.decode('latin-1')))
            if d:
                return d
        extra = sorted(set(obs) - set(exp))
        if extra:
            return ('%s.%s' % (path, extra[0].decode('latin-1')), NIL, obs[extra[0]], 'map-key-extra')
        return None
    raise TypeError(exp)


def show(v, lim=120):
    def r(v):
        if isinstance(v, bytes):
            return repr(v)[1:]
        if isinstance(v, Fraction):
            return str(int(v)) if v.denominator == 1 else repr(float(v))
        if isinstance(v, list):
            return '[' + ', '.join(r(x) for x in v) + ']'
        if isinstance(v, dict):
            return '{' + ', '.join('%s: %s' % (repr(k)[1:], r(x)) for k, x in sorted(v.items())) + '}'
        return repr(v)
    s = r(v)
    return s if len(s) <= lim else s[:lim] + '...'


def to_jsonable(v):
    if isinstance(v, bool) or isinstance(v, int):
        return {'b': v} if isinstance(v, bool) else {'i': str(v)}
    if isinstance(v, float):
        return {'f': repr(v)}
    if isinstance(v, bytes):
        return {'s': dtree.hx(v)}
    if isinstance(v, list):
        return {'a': [to_jsonable(x) for x in v]}
    if isinstance(v, dict):
        return {'m': [[dtree.hx(k), to_jsonable(x)] for k, x in sorted(v.items())]}
    raise TypeError(v)


def from_jsonable(j):
    if 'b' in j: return bool(j['b'])
    if 'i' in j: return int(j['i'])
    if 'f' in j: return float(j['f'])
    if 's' in j: return dtree.unhx(j['s'])
    if 'a' in j: return [from_jsonable(x) for x in j['a']]
    if 'm' in j: return {dtree.unhx(k): from_jsonable(x) for k, x in j['m']}
    raise ValueError(j)


def size(v):
    if isinstance(v, list):
        return 1 + sum(size(x) for x in v)
    if isinstance(v, dict):
        return 1 + sum(size(x) for x in v.values())
    return 1


def walk(v):
    yield v
    if isinstance(v, list):
        for x in v:
            yield from walk(x)
    elif isinstance(v, dict):
        for x in v.values():
            yield from walk(x)


# ---------------------------------------------------------------------------------------------------- features (suspected triggers) and their neutralisation
def sig_digits(x):
    m = re.sub(r'[eE].*$', '', repr(abs(x))).replace('.', '').lstrip('0')
    return len(m.rstrip('0')) if isinstance(x, int) else len(m)


def has_feature(v, f):
    for x in walk(v):
        if f == 'empty-string' and isinstance(x, bytes) and not x:
            return True
        if f == 'empty-container' and isinstance(x, (list, dict)) and not x:
            return True
        if f == 'empty-map-key' and isinstance(x, dict) and b'' in x:
            return True
        if f == 'array-10-or-more' and isinstance(x, list) and len(x) >= 10:
            return True
        if f == 'integer-beyond-2^53' and isinstance(x, int) and not isinstance(x, bool) and abs(x) > 2 ** 53:
            return True
        if f == 'real-17-digits' and isinstance(x, float) and len(repr(x).split('e')[0].replace('.', '').replace('-', '').lstrip('0')) > 16:
            return True
    return False


FEATURES = ['empty-string', 'empty-container', 'empty-map-key', 'array-10-or-more', 'integer-beyond-2^53', 'real-17-digits']


def neutralise(v, fs):
    """the same value with the features in fs removed (everything else untouched)"""
    if isinstance(v, bool):
        return v
    if isinstance(v, bytes):
        return b'x' if (not v and 'empty-string' in fs) else v
    if isinstance(v, int):
        return (v % 1000) if ('integer-beyond-2^53' in fs and abs(v) > 2 ** 53) else v
    if isinstance(v, float):
        if 'real-17-digits' in fs and len(repr(v).split('e')[0].replace('.', '').replace('-', '').lstrip('0')) > 16:
            return float('%.6g' % v)
        return v
    if isinstance(v, list):
        if not v and 'empty-container' in fs:
            return [0]
        r = [neutralise(x, fs) for x in v]
        if 'array-10-or-more' in fs and len(r) >= 10:
            return {b'i%d' % (i + 1): x for i, x in enumerate(r)}      # every element kept (so other features stay), no long array left
        return r
    if isinstance(v, dict):
        if not v and 'empty-container' in fs:
            return {b'z': 0}
        r = {k: neutralise(x, fs) for k, x in v.items()}
        if 'empty-map-key' in fs and b'' in r:
            r[b'e' if b'e' not in r else b'e_mpty'] = r.pop(b'')
        return r
    raise TypeError(v)


# ---------------------------------------------------------------------------------------------------- generator
STRINGS = [b'5', b'-1', b'1e3', b'0x10', b'1.5', b' 5', b'5 ', b'-', b'.', b'nil', b'true', b'false', b'1+1', b'a..b', b']]', b'[[x]]', b'--c', b'return 1', b'{}', b'{1,2}', b'"q"', b"'q'",
           b'\\', b'\\n', b'a\nb', b'\t', b'\r\n', b'_event', b'_G', b'os.exit()', b'x y', b'\x01', b'\x7f', b'\x80', b'\xff\xfe', 'äö'.encode(), '€'.encode(), b'%d', b'&lt;', b'<a/>', b'&', b'end', b'a=b']
KEYS = [b'a', b'b', b'key', b'k1', b'_x', b'end', b'nil', b'true', b'with space', b'da-sh', b'do.t', b'"q"', b"'", b'\\', b'x1y', b'A', 'ä'.encode(), b'\x01', b'[1]', b'1a', b'a1', b'return', b'#', b'$', b'', b'1-2', b'-', b'1.2.3', b'-x', b'3-', b'1 2', b'1.5', b'2.0', b'10.25']


def gen_string(rng, clean):
    r = rng.random()
    if r < 0.05 and 'empty-string' not in clean:
        return b''
    if r < 0.45:
        return rng.choice(STRINGS)
    if r < 0.7:
        return bytes(rng.randint(1, 255) for _ in range(rng.randint(1, 10)))
    return bytes(rng.choice(b'abcXYZ019_ -.') for _ in range(rng.randint(1, 12)))


def gen_key(rng, clean=()):
    if rng.random() < 0.6:
        k = rng.choice(KEYS)
        if not k and ('empty-map-key' in clean or rng.random() < 0.5):
            k = b'k'
    else:
        k = bytes(rng.choice(b'abcdefgXYZ_019 -.\'"\\') for _ in range(rng.randint(1, 8)))
    # "non-numeric": only what reads as a number in full is avoided ('1a', '1-2', '3-' are strings)
    if parse_number(k.decode('latin-1').strip()) is not None and not re.match(rb'^\d+\.\d+$', k):
        k = b'k' + k          # (a decimal fraction such as "1.5" is no array index either: it has to stay the string key it is)
    return k


def gen_number(rng, clean):
    r = rng.random()
    if r < 0.35:
        return rng.choice([0, 1, -1, 2, 7, 10, 42, -17, 100, 255, 1000, 65536, 123456, -99999, 2 ** 31, 2 ** 31 - 1, -2 ** 31, 10 ** 9, 2 ** 53, -2 ** 53, 999999999999])
    if r < 0.55:
        return rng.randint(-10 ** 6, 10 ** 6)
    if r < 0.60 and 'integer-beyond-2^53' not in clean:
        return rng.choice([2 ** 53 + 1, 2 ** 62 + 1, -(2 ** 53) - 1, 9007199254740993, 1234567890123456789, 10 ** 17 + 1])
    if r < 0.85:
        return float('%.*g' % (rng.randint(1, 12), rng.uniform(-1, 1) * 10 ** rng.randint(-8, 12)))      # at most 12 significant digits
    if r < 0.90 and 'real-17-digits' not in clean:
        return rng.choice([0.1 + 0.2, 1 / 3, 2 / 3, math.pi, 1e21 / 7, 5e-324, 1.7976931348623157e308, rng.random()])
    return rng.choice([0.5, -0.5, 1.5, 0.25, 1e21, 1e-7, -2.5e10, 3.0, 100.0, 1e15, 123456.789])


def gen_value(rng, clean, depth=4, maxarr=12):
    """clean: set of feature names to avoid"""
    r = rng.random()
    if depth <= 0 or r < 0.45:
        r2 = rng.random()
        if r2 < 0.5:
            return gen_string(rng, clean)
        if r2 < 0.88:
            return gen_number(rng, clean)
        return rng.random() < 0.5
    if r < 0.72:
        if rng.random() < 0.06 and 'empty-container' not in clean:
            return []
        n = rng.choice([1, 2, 3, 3, 4, 5, 9]) if ('array-10-or-more' in clean or rng.random() < 0.8) else rng.choice([10, 11, 12, 20, maxarr])
        if rng.random() < 0.5:      # homogeneous arrays are typical
            kind = rng.choice(['s', 'n'])
            return [gen_string(rng, clean) if kind == 's' else gen_number(rng, clean) for _ in range(n)]
        return [gen_value(rng, clean, depth - 1, maxarr) for _ in range(n)]
    if rng.random() < 0.06 and 'empty-container' not in clean:
        return {}
    d = {}
    for _ in range(rng.choice([1, 2, 3, 4, 6])):
        d[gen_key(rng, clean)] = gen_value(rng, clean, depth - 1, maxarr)
    if len(d) == 1 and b'' in d:
        # a table whose only key is "" reads back as an array padded up to an uninitialised index (listed finding empty-map-key):
        # the run would spend its time filling memory; keep the trigger but not this symptom
        d[b'z'] = 0
    return d
