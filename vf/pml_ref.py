"""C17 - reference semantics, printers, parser, generators and the 'as-is' variant model for the Promela datamodel.

Trees are tuples:
    ('c', n)            non-negative integer constant
    ('k', 'true'|'false')
    ('v', name)         declared scalar variable (int / byte / bool)
    ('a', name, idx)    array element, idx is a tree
    ('f', 's.x.y')      field of a compound variable
    ('u', op, e)        op in '-', '!'
    ('b', op, l, r)     op in BINOPS

Reference semantics (the oracle the property states): C `int` arithmetic as Promela/Spin defines it - precedence and
left-associativity of the C operators, truncating division, remainder with the sign of the dividend, comparisons and
boolean operators yield 0/1. Whatever C leaves undefined (32-bit overflow, shift by a negative count or by >= 31, left shift of
a negative value, INT_MIN / -1) raises Reject: the generator never emits such a (sub-)expression, nothing is demanded.
Division/modulo by zero, out-of-range indices and undeclared names raise Fault: the datamodel must answer with an error.

The 'as-is' model (class AsIs) is NOT an oracle. It is the set of hypotheses ("variants") about how the code under test
deviates; each variant is switched on only if its minimal witness reproduces in the current build. A deviation from the
reference is attributed to a variant's finding key only if the observed outcome is exactly what the model with the active
variants predicts; everything else is shrunk against the real code and keyed by what is then observed.
"""
import random

INT_MIN, INT_MAX = -2 ** 31, 2 ** 31 - 1
BINOPS = ['||', '&&', '==', '!=', '<', '<=', '>', '>=', '<<', '>>', '+', '-', '*', '/', '%']
ALLOPS = BINOPS + ['u-', '!']
PREC_C = {'||': 1, '&&': 2, '==': 6, '!=': 6, '<': 7, '<=': 7, '>': 7, '>=': 7, '<<': 8, '>>': 8, '+': 9, '-': 9, '*': 10, '/': 10, '%': 10}
UNARY_PREC = 11
NONCOMM = ['-', '/', '%', '<<', '>>', '<', '<=', '>', '>=']
KEYWORDS = {'bit', 'bool', 'byte', 'int', 'mtype', 'short', 'unsigned', 'string', 'auto', 'len', 'false', 'skip', 'true', 'printf',
            'typedef', 'assert', 'return', 'config'}


class Reject(Exception):
    """C leaves the result undefined / implementation defined: nothing can be demanded."""


class Fault(Exception):
    """The expression must be answered with an error."""
    def __init__(self, kind):
        Exception.__init__(self, kind)
        self.kind = kind


def trunc_div(l, r):
    q = abs(l) // abs(r)
    return q if (l < 0) == (r < 0) else -q


def apply_bin(op, l, r):
    """C int semantics. Raises Reject / Fault."""
    if op == '+': v = l + r
    elif op == '-': v = l - r
    elif op == '*': v = l * r
    elif op in ('/', '%'):
        if r == 0:
            raise Fault('div-by-zero:' + op)
        if l == INT_MIN and r == -1:
            raise Reject('INT_MIN / -1')
        q = trunc_div(l, r)
        v = q if op == '/' else l - q * r
    elif op in ('<<', '>>'):
        # '>>' of a negative value is implementation-defined in C, and an arithmetic shift with every compiler Spin is built with: demanded.
        # '<<' of a negative value stays out (undefined).
        if r < 0 or r >= 31 or (l < 0 and op == '<<'):
            raise Reject('shift')
        v = l << r if op == '<<' else l >> r
    elif op == '<': v = int(l < r)
    elif op == '<=': v = int(l <= r)
    elif op == '>': v = int(l > r)
    elif op == '>=': v = int(l >= r)
    elif op == '==': v = int(l == r)
    elif op == '!=': v = int(l != r)
    elif op == '&&': v = int(l != 0 and r != 0)
    elif op == '||': v = int(l != 0 or r != 0)
    else:
        raise ValueError(op)
    if v < INT_MIN or v > INT_MAX:
        raise Reject('overflow')
    return v


def apply_un(op, x):
    if op == '!':
        return int(x == 0)
    if x == INT_MIN:
        raise Reject('-INT_MIN')
    return -x


# ------------------------------------------------------------------------------------------------ environment
TYPE_RANGE = {'int': (INT_MIN, INT_MAX), 'byte': (0, 255), 'bool': (0, 1), 'short': (-32768, 32767), 'bit': (0, 1)}


class Env:
    """The Python model of the variable store: scalars, arrays, fields of compound variables."""
    def __init__(self):
        self.scalars = {}    # name -> [type, value]
        self.arrays = {}     # name -> [type, [values]]
        self.structs = {}    # base name -> {'x': v, 'n.z': v}
        self.order = []      # declaration order of names

    def copy(self):
        e = Env()
        e.scalars = {k: list(v) for k, v in self.scalars.items()}
        e.arrays = {k: [v[0], list(v[1])] for k, v in self.arrays.items()}
        e.structs = {k: dict(v) for k, v in self.structs.items()}
        e.order = list(self.order)
        return e

    def declared(self, name):
        return name in self.scalars or name in self.arrays or name in self.structs

    def setup_commands(self):
        """Harness commands that build this environment in a fresh datamodel (R first)."""
        cmds = ['R']
        for n in self.order:
            if n in self.scalars:
                t, v = self.scalars[n]
                cmds.append('D\t%s\t%s\t%s' % (t, n, lit(v)))
            elif n in self.arrays:
                t, vals = self.arrays[n]
                cmds.append('L\t%s %s[%d]' % (t, n, len(vals)))
                for i, v in enumerate(vals):
                    if v != 0:
                        cmds.append('A\t%s[%d]\t%s' % (n, i, lit(v)))
            else:
                cmds.append('D\tint\t%s\t0' % n)
                for p, v in sorted(self.structs[n].items()):
                    cmds.append('A\t%s.%s\t%s' % (n, p, lit(v)))
        return cmds

    def to_json(self):
        return {'scalars': self.scalars, 'arrays': self.arrays, 'structs': self.structs, 'order': self.order}

    @staticmethod
    def from_json(j):
        e = Env()
        e.scalars = {k: list(v) for k, v in j['scalars'].items()}
        e.arrays = {k: [v[0], list(v[1])] for k, v in j['arrays'].items()}
        e.structs = {k: dict(v) for k, v in j['structs'].items()}
        e.order = list(j['order'])
        return e


def lit(v):
    """An integer as text the datamodel can parse without unary minus (which is itself under test)."""
    return str(v) if v >= 0 else '0 - %d' % (-v)


def random_env(rng):
    e = Env()
    def small():
        r = rng.random()
        if r < 0.7: return rng.randint(-9, 12)
        if r < 0.9: return rng.randint(-100, 300)
        return rng.choice([1000, 65535, -65536, 100000, 46341, INT_MAX, 255, 256, 0, 1])
    for n in ('a', 'b', 'c'):
        e.scalars[n] = ['int', small()]
    e.scalars['d'] = ['byte', rng.choice([0, 1, 2, 3, 7, 200, 255, rng.randint(0, 255)])]
    e.scalars['e'] = ['bool', rng.randint(0, 1)]
    e.arrays['arr'] = ['int', [rng.randint(-9, 9) for _ in range(4)]]
    e.arrays['brr'] = ['byte', [rng.randint(0, 20) for _ in range(3)]]
    e.structs['s'] = {'x': rng.randint(-5, 9), 'y': rng.randint(0, 40), 'n.z': rng.randint(1, 6)}
    e.order = ['a', 'b', 'c', 'd', 'e', 'arr', 'brr', 's']
    return e


# ------------------------------------------------------------------------------------------------ printing
def prec_of(t):
    if t[0] == 'b': return PREC_C[t[1]]
    if t[0] == 'u': return UNARY_PREC
    return 99


def show(t, full=False):
    """full=False: minimal parentheses per C/Promela precedence and left-associativity; full=True: every operator node
    parenthesised."""
    k = t[0]
    if k == 'c': return str(t[1])
    if k in ('k', 'v', 'f'): return t[1]
    if k == 'a': return '%s[%s]' % (t[1], show(t[2], full))
    if k == 'u':
        s = show(t[2], full)
        if not full and t[2][0] == 'b':
            s = '(' + s + ')'
        if s.startswith('-') and t[1] == '-':
            s = ' ' + s               # '- -x', never the decrement token
        r = t[1] + s
        return '(' + r + ')' if full else r
    op, l, r = t[1], t[2], t[3]
    ls, rs = show(l, full), show(r, full)
    if not full:
        p = PREC_C[op]
        if prec_of(l) < p: ls = '(' + ls + ')'
        if prec_of(r) <= p: rs = '(' + rs + ')'
    s = '%s %s %s' % (ls, op, rs)
    return '(' + s + ')' if full else s


def subtrees(t):
    """All operator/leaf sub-expressions including t (array indices included)."""
    yield t
    if t[0] == 'a':
        for x in subtrees(t[2]): yield x
    elif t[0] == 'u':
        for x in subtrees(t[2]): yield x
    elif t[0] == 'b':
        for x in subtrees(t[2]): yield x
        for x in subtrees(t[3]): yield x


def size(t):
    return sum(1 for _ in subtrees(t))


def depth(t):
    if t[0] == 'a': return depth(t[2])
    if t[0] == 'u': return 1 + depth(t[2])
    if t[0] == 'b': return 1 + max(depth(t[2]), depth(t[3]))
    return 0


def ops_of(t):
    s = set()
    for x in subtrees(t):
        if x[0] == 'b': s.add(x[1])
        elif x[0] == 'u': s.add('u-' if x[1] == '-' else '!')
    return s


def skeleton(t, full=False):
    """Operator shape: constants -> c, variables -> v, fields -> v.f, array elements -> v[..]."""
    def sk(t):
        k = t[0]
        if k in ('c', 'k'): return ('v', 'c')
        if k == 'v': return ('v', 'v')
        if k == 'f': return ('v', 'v.f')
        if k == 'a': return ('a', 'v', sk(t[2]))
        if k == 'u': return ('u', t[1], sk(t[2]))
        return ('b', t[1], sk(t[2]), sk(t[3]))
    return show(sk(t), full).replace(' ', '')


def replace_at(t, path, new):
    if not path:
        return new
    i = path[0]
    l = list(t)
    l[i] = replace_at(t[i], path[1:], new)
    return tuple(l)


def paths(t, pre=()):
    """(path, subtree) for all sub-expressions, outermost first."""
    yield pre, t
    if t[0] in ('a', 'u'):
        for x in paths(t[2], pre + (2,)): yield x
    elif t[0] == 'b':
        for x in paths(t[2], pre + (2,)): yield x
        for x in paths(t[3], pre + (3,)): yield x


def to_list(t):
    return [to_list(x) if isinstance(x, tuple) else x for x in t]


def from_list(l):
    return tuple(from_list(x) if isinstance(x, list) else x for x in l)


# ------------------------------------------------------------------------------------------------ reference evaluation
def ref_eval(t, env):
    """Value of the tree with C/Promela semantics; every sub-expression is evaluated (no short-circuit is assumed, so a
    tree with a fault or undefined operation anywhere is never used as a value case)."""
    k = t[0]
    if k == 'c':
        if t[1] > INT_MAX: raise Reject('constant')
        return t[1]
    if k == 'k': return 1 if t[1] == 'true' else 0
    if k == 'v':
        if t[1] in env.scalars: return env.scalars[t[1]][1]
        if t[1] in env.arrays or t[1] in env.structs: raise Fault('array-or-struct-as-scalar')
        raise Fault('undeclared')
    if k == 'f':
        base, _, p = t[1].partition('.')
        if base not in env.structs:
            raise Fault('undeclared-field' if not env.declared(base) else 'no-such-field')
        if p not in env.structs[base]: raise Fault('no-such-field')
        return env.structs[base][p]
    if k == 'a':
        i = ref_eval(t[2], env)
        if t[1] not in env.arrays:
            raise Fault('undeclared-array' if not env.declared(t[1]) else 'scalar-indexed')
        vals = env.arrays[t[1]][1]
        if i < 0: raise Fault('index-negative')
        if i == len(vals): raise Fault('index-eq-size')
        if i > len(vals): raise Fault('index-gt-size')
        return vals[i]
    if k == 'u':
        return apply_un(t[1], ref_eval(t[2], env))
    l = ref_eval(t[2], env)
    r = ref_eval(t[3], env)
    return apply_bin(t[1], l, r)


# ------------------------------------------------------------------------------------------------ tokenizer / parser
class ParseError(Exception):
    pass


TOK2 = ['||', '&&', '==', '!=', '<=', '>=', '<<', '>>', '++', '--']
TOK1 = '+-*/%<>!()[].'


def tokenize(s):
    out, i = [], 0
    while i < len(s):
        ch = s[i]
        if ch in ' \t\n':
            i += 1
        elif ch.isdigit():
            j = i
            while j < len(s) and s[j].isdigit(): j += 1
            out.append(('num', int(s[i:j]))); i = j
        elif ch.isalpha() or ch == '_':
            j = i
            while j < len(s) and (s[j].isalnum() or s[j] == '_'): j += 1
            out.append(('id', s[i:j])); i = j
        elif s[i:i + 2] in TOK2:
            out.append(('op', s[i:i + 2])); i += 2
        elif ch in TOK1:
            out.append(('op', ch)); i += 1
        else:
            raise ParseError('character %r' % ch)
    out.append(('end', None))
    return out


class Parser:
    """Precedence climbing, parameterised by the precedence table and by the binding of unary minus:
       prec: binary operator -> level;  uminus_min: minimum level of binary operators a unary minus operand absorbs
       (C: none (99); the bison grammar under test gives the rule the level of binary minus, so '* / %' are absorbed)."""
    def __init__(self, text, prec=PREC_C, uminus_min=99):
        self.t = tokenize(text)
        self.i = 0
        self.prec = prec
        self.um = uminus_min

    def peek(self): return self.t[self.i]

    def next(self):
        x = self.t[self.i]; self.i += 1; return x

    def parse(self):
        e = self.expr(0)
        if self.peek()[0] != 'end':
            raise ParseError('trailing %r' % (self.peek()[1],))
        return e

    def expr(self, minp):
        l = self.unary()
        while True:
            k, v = self.peek()
            if k == 'op' and v in self.prec and self.prec[v] >= minp:
                self.next()
                r = self.expr(self.prec[v] + 1)
                l = ('b', v, l, r)
            else:
                return l

    def unary(self):
        k, v = self.peek()
        if k == 'op' and v == '!':
            self.next()
            return ('u', '!', self.unary())
        if k == 'op' and v == '-':
            self.next()
            if self.um >= 99:
                return ('u', '-', self.unary())
            return ('u', '-', self.expr(self.um))
        return self.primary()

    def primary(self):
        k, v = self.next()
        if k == 'num':
            return ('c', v)
        if k == 'op' and v == '(':
            e = self.expr(0)
            k2, v2 = self.next()
            if (k2, v2) != ('op', ')'): raise ParseError('expected )')
            return e
        if k == 'id':
            if v in ('true', 'false'):
                return ('k', v)
            if v in KEYWORDS:
                raise ParseError('keyword ' + v)
            k2, v2 = self.peek()
            if (k2, v2) == ('op', '['):
                self.next()
                idx = self.expr(0)
                k3, v3 = self.next()
                if (k3, v3) != ('op', ']'): raise ParseError('expected ]')
                if self.peek() == ('op', '.'): raise ParseError('field of array element: outside the modelled subset')
                return ('a', v, idx)
            if (k2, v2) == ('op', '.'):
                path = v
                while self.peek() == ('op', '.'):
                    self.next()
                    k3, v3 = self.next()
                    if k3 != 'id': raise ParseError('expected field name')
                    path += '.' + v3
                if self.peek() == ('op', '['): raise ParseError('array field: outside the modelled subset')
                return ('f', path)
            return ('v', v)
        raise ParseError('unexpected %r' % (v,))


def parse_c(text):
    return Parser(text).parse()


# ------------------------------------------------------------------------------------------------ as-is variant model
class Out(Exception):
    """Non-value outcome(s) of the as-is model: subset of {'ERR','CRASH','HANG','ANYVALUE'}."""
    def __init__(self, kinds):
        Exception.__init__(self, ','.join(sorted(kinds)))
        self.kinds = frozenset(kinds)


class AsIs:
    """Hypotheses about the code under test. `active` is a dict variant-name -> finding key, filled by the check from the
    witnesses that reproduce in the current build:
        'ne'            '!=' raises an error before evaluating its operands
        'umin'          unary minus reads a second operand that does not exist (process dies)
        'swap:<op>'     the operands of <op> are bound in reverse order (evaluation order in time stays left to right)
        'orand'         '||' and '&&' share one precedence level (left-associative)
        'div0:/','div0:%'   a zero divisor kills the process
        'negidx:read','negidx:write'   a negative index is not rejected: allocation loop
    evaluate() returns (set of acceptable outcomes, set of variants that fired)."""
    def __init__(self, active):
        self.active = dict(active)
        self.prec = dict(PREC_C)
        if 'orand' in self.active:
            self.prec['&&'] = self.prec['||']

    def parse(self, text):
        # the unary-minus rule has the level of binary minus in the grammar under test; it is value-neutral except for
        # overflow, and it decides what is evaluated before the process dies
        return Parser(text, self.prec, PREC_C['*']).parse()

    def outcomes(self, text, env, write=False):
        """Outcome set for evalAsData(text) (write=False) or for evaluating text as an assignment location (write=True:
        text must be an array element / field / name; returns what setVariable would do)."""
        fired = set()
        try:
            tree = self.parse(text)
        except ParseError:
            return {('ERR',)}, fired
        if 'orand' in self.active:
            try:
                if tree != Parser(text, PREC_C, PREC_C['*']).parse():
                    fired.add('orand')
            except ParseError:
                pass
        try:
            if write:
                self.loc(tree, env, fired)
                return {('OK',)}, fired
            v = self.ev(tree, env, fired)
            if not isinstance(v, int):
                return {('NONINT',)}, fired
            return {('V', v)}, fired
        except Out as o:
            return {(k,) for k in o.kinds}, fired

    def toint(self, v):
        if not isinstance(v, int):
            raise Out({'ERR'})     # "Operand is not integer"
        return v

    def tobool(self, v):
        if v == 'false': return False
        if v == '': return False
        return self.toint(v) != 0

    def index(self, t, env, fired, which):
        i = self.toint(self.ev(t[2], env, fired))
        if t[1] not in env.arrays:
            raise Out({'ERR'})
        n = len(env.arrays[t[1]][1])
        if n <= i:
            raise Out({'ERR'})
        if i < 0:
            if 'negidx:' + which in self.active:
                fired.add('negidx:' + which)
                raise Out({'HANG'})
            raise Out({'ERR'})
        return i

    def loc(self, t, env, fired):
        if t[0] == 'a':
            self.index(t, env, fired, 'write')
        elif t[0] == 'v':
            if not env.declared(t[1]): raise Out({'ERR'})
        elif t[0] == 'f':
            base = t[1].split('.')[0]
            if not env.declared(base) or base in env.arrays: raise Out({'ERR'})
        else:
            raise Out({'ERR'})

    def ev(self, t, env, fired):
        k = t[0]
        if k == 'c': return min(t[1], INT_MAX)
        if k == 'k': return 1 if t[1] == 'true' else 0
        if k == 'v':
            if t[1] in env.scalars: return env.scalars[t[1]][1]
            if t[1] in env.arrays: return ''          # compound Data, empty atom
            if t[1] in env.structs: return 0
            return 'false'                            # undeclared names read as false (test 277)
        if k == 'f':
            base, _, p = t[1].partition('.')
            if base in env.structs and p in env.structs[base]: return env.structs[base][p]
            raise Out({'ERR'})
        if k == 'a':
            i = self.index(t, env, fired, 'read')
            return env.arrays[t[1]][1][i]
        if k == 'u':
            if t[1] == '!':
                return int(not self.tobool(self.ev(t[2], env, fired)))
            if 'umin' in self.active:
                fired.add('umin')
                try:
                    self.ev(t[2], env, fired)
                except Out as o:
                    raise Out(set(o.kinds) | {'CRASH'})   # order of the two reads is unsequenced
                raise Out({'CRASH'})
            x = self.toint(self.ev(t[2], env, fired))
            if x == INT_MIN: raise Out({'CRASH', 'ANYVALUE'})
            return -x
        op = t[1]
        if op == '!=' and 'ne' in self.active:
            fired.add('ne')
            raise Out({'ERR'})
        l = self.ev(t[2], env, fired)
        r = self.ev(t[3], env, fired)
        if op in ('&&', '||'):
            bl, br = self.tobool(l), self.tobool(r)
            return int(bl and br) if op == '&&' else int(bl or br)
        if op == '==' and l == r:
            return 1
        l, r = self.toint(l), self.toint(r)
        if 'swap:' + op in self.active:
            try:
                same = self.apply(op, l, r, set()) == self.apply(op, r, l, set())
            except Out:
                same = False
            if not same:
                fired.add('swap:' + op)
            l, r = r, l
        return self.apply(op, l, r, fired)

    def apply(self, op, l, r, fired):
        """What the compiled C++ does with two ints (C++11, UBSan: undefined operations end the process; without UBSan
        anything may come out, hence ANYVALUE next to CRASH)."""
        ub = Out({'CRASH', 'ANYVALUE'})
        if op in ('/', '%'):
            if r == 0:
                v = 'div0:' + op
                if v in self.active:
                    fired.add(v)
                    raise Out({'CRASH'})
                raise Out({'ERR'})
            if l == INT_MIN and r == -1:
                raise ub
            return apply_bin(op, l, r)
        if op == '<<':
            if r < 0 or r >= 32 or l < 0 or (l << r) >= 2 ** 32:
                raise ub
            v = l << r
            return v - 2 ** 32 if v > INT_MAX else v
        if op == '>>':
            if r < 0 or r >= 32:
                raise ub
            return l >> r
        try:
            return apply_bin(op, l, r)
        except Reject:
            raise ub


# ------------------------------------------------------------------------------------------------ generator
class Gen:
    def __init__(self, rng, env, maxdepth):
        self.rng, self.env, self.maxdepth = rng, env, maxdepth

    def palette(self):
        r = self.rng.random()
        if r < 0.12:
            return list(ALLOPS)
        k = self.rng.choice([1, 2, 2, 3, 3, 3, 4, 4, 5, 6])
        return self.rng.sample(ALLOPS, k)

    def const(self):
        r = self.rng.random()
        if r < 0.70: return self.rng.randint(0, 9)
        if r < 0.88: return self.rng.randint(10, 120)
        return self.rng.choice([255, 256, 1000, 4096, 65535, 65536, 46340, 1 << 20, 1 << 30, INT_MAX])

    def leaf(self, d, pal):
        rng, env = self.rng, self.env
        r = rng.random()
        if r < 0.45:
            c = self.const()
            return ('c', c), c
        if r < 0.49:
            k = rng.choice(['true', 'false'])
            return ('k', k), int(k == 'true')
        if r < 0.75 and env.scalars:
            n = rng.choice(sorted(env.scalars))
            return ('v', n), env.scalars[n][1]
        if r < 0.90 and env.arrays:
            n = rng.choice(sorted(env.arrays))
            vals = env.arrays[n][1]
            if d >= 1 and rng.random() < 0.4:
                it, iv = self.node(1, pal, root=False)
                if 0 <= iv < len(vals):
                    return ('a', n, it), vals[iv]
            i = rng.randrange(len(vals))
            return ('a', n, ('c', i)), vals[i]
        st = [b for b in sorted(env.structs) if env.structs[b]]
        if st:
            b = rng.choice(st)
            p = rng.choice(sorted(env.structs[b]))
            if p not in ('type', 'vis'):     # names the datamodel uses for its own bookkeeping: judged by read-back only
                return ('f', b + '.' + p), env.structs[b][p]
        c = self.const()
        return ('c', c), c

    def node(self, d, pal, root=True):
        rng = self.rng
        if d <= 0 or (not root and rng.random() < 0.12):
            return self.leaf(d, pal)
        op = rng.choice(pal)
        if op in ('u-', '!'):
            e, v = self.node(d - 1, pal, False)
            o = '-' if op == 'u-' else '!'
            try:
                return ('u', o, e), apply_un(o, v)
            except Reject:
                return ('u', '!', e), apply_un('!', v)
        a, av = self.node(d - 1, pal, False)
        b, bv = self.node(rng.randint(0, d - 1), pal, False)
        if rng.random() < 0.5:
            a, av, b, bv = b, bv, a, av
        for attempt in range(4):
            try:
                return ('b', op, a, b), apply_bin(op, av, bv)
            except (Reject, Fault):
                # repair with small constants, keeping the operator
                if attempt == 0:
                    bv = rng.randint(1, 3); b = ('c', bv)
                elif attempt == 1:
                    av = rng.randint(0, 9); a = ('c', av)
                else:
                    av, bv = rng.randint(0, 9), rng.randint(1, 3); a, b = ('c', av), ('c', bv)
        return ('c', 1), 1

    def expression(self, pal=None):
        """(tree, reference value); depth in 1..maxdepth, <= 70 nodes."""
        pal = pal or self.palette()
        for _ in range(50):
            d = self.rng.randint(1, self.maxdepth)
            t, v = self.node(d, pal)
            if t[0] in ('b', 'u') and size(t) <= 70:
                assert ref_eval(t, self.env) == v, (t, v)
                return t, v
        return ('b', '+', ('c', 1), ('c', 1)), 2


def pair_family():
    """Deterministic family: every ordered pair of binary operators in both nestings, (x op1 y) op2 z and x op1 (y op2 z),
    every unary operator over/under every binary operator, over a fixed list of constant triples. Faulting / undefined
    instances are dropped."""
    triples = [(7, 2, 1), (1, 0, 0), (0, 1, 1), (8, 2, 2), (3, 5, 2), (2, 2, 2), (0, 0, 1), (9, 4, 3), (1, 1, 0), (5, 3, 0)]
    empty = Env()
    out = []
    for (x, y, z) in triples:
        for o1 in BINOPS:
            for o2 in BINOPS:
                for t in (('b', o2, ('b', o1, ('c', x), ('c', y)), ('c', z)), ('b', o1, ('c', x), ('b', o2, ('c', y), ('c', z)))):
                    try:
                        out.append((t, ref_eval(t, empty)))
                    except (Reject, Fault):
                        pass
        for o1 in BINOPS:
            for u in ('-', '!'):
                for t in (('u', u, ('b', o1, ('c', x), ('c', y))), ('b', o1, ('u', u, ('c', x)), ('c', y)), ('b', o1, ('c', x), ('u', u, ('c', y))),
                          ('u', u, ('u', '-', ('c', x))), ('u', u, ('u', '!', ('c', x)))):
                    try:
                        out.append((t, ref_eval(t, empty)))
                    except (Reject, Fault):
                        pass
    seen, res = set(), []
    for t, v in out:
        if t not in seen:
            seen.add(t); res.append((t, v))
    return res


# ------------------------------------------------------------------------------------------------ error cases
def syntax_mutants(rng, text):
    """Texts derived from a well-formed expression that no Promela/C expression grammar accepts (checked with parse_c;
    only tokens of the modelled operator set are used, never '=' '++' '!x y' forms that are Promela statements)."""
    toks = text.replace('(', ' ( ').replace(')', ' ) ').replace('[', ' [ ').replace(']', ' ] ').split()
    cands = []
    def j(ts): return ' '.join(ts)
    binops = [i for i, t in enumerate(toks) if t in PREC_C and i > 0 and toks[i - 1] not in PREC_C and toks[i - 1] not in ('(', '[', '!')]
    operands = [i for i, t in enumerate(toks) if t[0].isalnum() or t[0] == '_']
    if binops:
        i = rng.choice(binops)
        cands.append(('operator-doubled', j(toks[:i + 1] + [rng.choice(['*', '/', '%', '<', '==', '&&', '||', '>>'])] + toks[i + 1:])))
        cands.append(('operator-dropped', j(toks[:i] + toks[i + 1:])))
    cands.append(('trailing-operator', text + ' ' + rng.choice(['+', '*', '&&', '<', '-', '=='])))
    cands.append(('leading-operator', rng.choice(['*', '/', '%', '&&', '<', '==', '||', ')']) + ' ' + text))
    cands.append(('unbalanced-open', '(' + text))
    cands.append(('unbalanced-close', text + ')'))
    cands.append(('empty-parens', '( ) + ' + text))
    if operands:
        i = rng.choice(operands)
        cands.append(('operand-doubled', j(toks[:i + 1] + [rng.choice(['1', 'a', '2'])] + toks[i + 1:])))
    if '[' in toks:
        i = toks.index('[')
        k = len(toks) - 1 - toks[::-1].index(']')
        cands.append(('bracket-unclosed', j(toks[:k] + toks[k + 1:])))
        cands.append(('empty-index', j(toks[:i + 1] + toks[k:])))
    cands.append(('unknown-character', text + ' ' + rng.choice(['$', '`', '\\']) + ' 1'))
    res = []
    for kind, s in cands:
        ts = s.replace('(', ' ( ').replace(')', ' ) ').replace('[', ' [ ').replace(']', ' ] ').split()
        if any(t == '!' and (ts[i - 1] in (')', ']') or ts[i - 1][0].isalnum() or ts[i - 1][0] == '_') for i, t in enumerate(ts) if i > 0):
            continue      # 'x ! y' is a Promela send statement, not an ill-formed text
        try:
            parse_c(s)
        except ParseError:
            res.append((kind, s))
    return res


def context_with_hole(gen, rng, d):
    """A tree with one hole ('hole',): all other sub-expressions are fault-free, and the hole is never below the right
    operand of '&&' / '||' (a short-circuiting implementation would be allowed to skip it), so every evaluation strategy
    must reach the fault injected into the hole."""
    hole = ('hole',)
    t = hole
    for _ in range(d):
        r = rng.random()
        if r < 0.2:
            t = ('u', '!', t)
            continue
        op = rng.choice(['+', '-', '*', '<', '<=', '>', '>=', '==', '&&', '||', '+', '-'])
        other, _ = gen.node(rng.randint(0, 2), ['+', '-', '*', '<', '=='], False)
        if op in ('&&', '||') or rng.random() < 0.5:
            t = ('b', op, t, other)
        else:
            t = ('b', op, other, t)
    return t


def fill_hole(t, x):
    if t == ('hole',):
        return x
    if t[0] in ('a', 'u'):
        return (t[0], t[1], fill_hole(t[2], x))
    if t[0] == 'b':
        return ('b', t[1], fill_hole(t[2], x), fill_hole(t[3], x))
    return t
