"""Reference relation of SCXML 1.0 Rec. 3.12.1 (event descriptors) + input generators + finding classification."""
import itertools


def ref_match(descs, name, fold=False):
    """True iff some descriptor in the blank separated list equals `name` or is a token-wise prefix of it."""
    if fold:
        descs, name = descs.lower(), name.lower()
    nt = name.split('.')
    for d in descs.split():
        if d == '*':
            return True
        if d.endswith('.*'):
            d = d[:-2]
        elif d.endswith('.'):
            d = d[:-1]
        dt = d.split('.')
        if len(dt) <= len(nt) and nt[:len(dt)] == dt:
            return True
    return False


TOKENS = ['a', 'b', 'ab', 'A']


def names(max_tokens=3, tokens=TOKENS):
    for n in range(1, max_tokens + 1):
        for t in itertools.product(tokens, repeat=n):
            yield '.'.join(t)


def descriptors(max_tokens=3, tokens=TOKENS):
    yield '*'
    for n in names(max_tokens, tokens):
        yield n
        yield n + '.*'
        yield n + '.'


def descriptor_lists(max_desc=2, max_tokens=3, tokens=TOKENS, seps=(' ', '  ')):
    ds = list(descriptors(max_tokens, tokens))
    for d in ds:
        yield d
    if max_desc >= 2:
        for d1 in ds:
            for d2 in ds:
                for s in seps:
                    yield d1 + s + d2


def strip_desc(d):
    if d == '*':
        return d
    if d.endswith('.*'):
        return d[:-2]
    if d.endswith('.'):
        return d[:-1]
    return d


def shrink(descs, name, fails):
    """Greedy shrink of a failing (descs, name): drop descriptors, shorten names/descriptors token-wise."""
    dl = descs.split()
    changed = True
    while changed:
        changed = False
        for i in range(len(dl)):
            if len(dl) > 1:
                cand = dl[:i] + dl[i + 1:]
                if fails(' '.join(cand), name):
                    dl = cand; changed = True; break
    return ' '.join(dl), name


def classify(descs, name, got, expected):
    """Finding key for a mismatch, from the shape of the (shrunk) input. None -> no known shape."""
    dl = descs.split()
    if expected is False and got is True:
        if ref_match(descs, name, fold=True):
            return 'case-insensitive-match'
        return 'false-positive:other'
    # expected True, got False
    matching = [i for i, d in enumerate(dl) if ref_match(d, name)]
    if len(dl) >= 2 and matching:
        # every matching descriptor is a single character
        if all(len(dl[i]) == 1 for i in matching):
            if all(i == len(dl) - 1 for i in matching):
                return 'single-char-descriptor-last-in-list'
            return 'single-char-descriptor-in-list'
    return 'false-negative:other'
