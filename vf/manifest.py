#!/usr/bin/env python3
"""Generates /verif/MANIFEST.json from the table below (run after adding a check)."""
import json, os, sys
V = os.path.dirname(os.path.dirname(os.path.abspath(__file__)))

CHECKS = {

 'C15': dict(
   technique='runtime round-trip monitor + sanitizer fuzzing: Data::toJSON/fromJSON and Event::operator Data/fromData called directly in the ASan/UBSan build on generated trees, events and mutated byte strings; results compared by Data::operator== and an independent structural walk; crashes classified by a transcription of the parser that names the first undefined step',
   text='Exploration: seeded random Data trees (strings/keys over all byte values but NUL, numbers, nested arrays/maps, empty nodes, top-level atoms) must satisfy fromJSON(toJSON(d)) == d; random events must survive Event::fromData(Data(e)) field by field; mutated/random byte strings must make fromJSON return or throw without sanitizer report, signal or hang. A LeakSanitizer pass parses several hundred (mostly malformed) inputs in one process: nothing allocated by fromJSON may stay behind.',
   note='Trusted: vf/dtree.py comparison, harness/vdata.h wire format; vf/json_ref.py only names crash classes. Data::operator== consulted up to depth 12 (it is exponential in depth). No uninitialised-read detection.',
   ref='DESIGN.md 3/C15'),
 'C16': dict(
   technique='runtime round-trip monitor on the real interpreter (datamodel lua, ASan/UBSan build, in-process driver): generated values sent along every entry/exit route and read back with evalAsData; denotational comparison in Python; failing routes classified by a causal test (re-run with the suspected trigger feature neutralised); system-variable assignment attempts observed via before/after reads and the processed-event stream',
   text='Exploration: seeded random values (strings over all bytes incl. empty/number-like/Lua-like, integers, reals, booleans, arrays incl. >=10 elements, maps with non-numeric keys, nesting <=4) each run through one document covering 14 routes; what comes back must denote the same value. 7 forms of chart code x 5 system variables must raise error.execution and leave the variables unchanged.',
   note='Trusted: vf/luaval.py. Numeric-keyed/mixed tables, nil, NUL bytes are outside the domain; inline content is written as Lua literals.',
   ref='DESIGN.md 3/C16'),
 'C17': dict(
   technique='runtime differential monitor: generated Promela expressions (two printings each), error cases and statement sequences are put to DataModel::evalAsData/evalAsBool/assign/init of a promela-datamodel interpreter in forked, replayable processes of the ASan+UBSan build (CPU-time watchdog) and compared with a C-int reference evaluator and a dict model of the store',
   text='Exploration: random expression trees (depth <=5 quick / 7 thorough) over all 17 operators, variables, array elements and fields plus every ordered pair of binary operators in both nestings; minimal and full parenthesisation must both give the C-int value; ill-formed texts, /0, %0, out-of-range indices and undeclared names must be answered with an error; statement sequences are read back completely after every statement.',
   note='Trusted: vf/pml_ref.py reference. Short-circuit behaviour, byte/bool truncation and operand order in time (beyond what error texts reveal) are not judged.',
   ref='DESIGN.md 3/C17'),

 'C07': dict(level='fault_enumeration',
   technique='fault injection + history/reference monitor: one failing element (or condition) injected at every position of every executable block of generated documents, runs on the ASan/UBSan build compared step by step with the reference in which the element enqueues its error and aborts its block; plus seeded XML mutants judged for crashes/hangs only',
   text='Fault enumeration: for each generated document every (block, position) gets a failing element from the per-datamodel fault list (send to unknown type/target, illegal expression/location, system variable, foreach over non-array, cancel without id, /0, %0, ...), 30% nested in an <if>; the error event must be processed in queue order, nothing after the element in its block may run, following blocks must run, the interpreter keeps stepping; no signal, sanitizer report or hang. Mutated well-formed XML goes through fromXML+validate+stepping. A third workload runs a corpus of constructs that fail outside the micro stepper (content/param expressions, non-string Lua error objects and table keys, INT_MIN/-1, short array initialisers, <finalize>, invoke params) in every block kind on both engines: no crash, no exception out of step(), no hang.',
   note='Trusted: vf/refscxml.py with fail actions; expected error names in vf/checks/c07.py. Memory safety as far as ASan/UBSan see it.',
   ref='DESIGN.md 3/C07'),
 'C08': dict(
   technique='history checker over recorded multi-threaded executions + ThreadSanitizer/AddressSanitizer: N producer threads call receive() against one stepping thread, seeded yields at USCXML_VERIF schedule points; offline exactly-once / per-producer FIFO / macrostep-rule checker; TSan reports attributed by anchored files',
   text='Exploration of schedules by stress and injected yields: every sent event must be processed exactly once, per producer in order, and each external event must be followed by exactly the prescribed internal sequence and one stable notice; data races in the queue/interpreter code are violations. Evidence counts distinct interleaving signatures. One run in four uses a stepper that sleeps in step(3000) with paced producers dwelling at the enqueue entry: every enqueue must wake it (lost wake-ups); one in five starts the producers before the first step().',
   note='Interleavings are sampled, not enumerated. TSan only sees synchronisation it intercepts; reports without a frame in the anchored files are listed, not judged.',
   ref='DESIGN.md 3/C08'),
 'C09': dict(
   technique='timestamped history checker + forced-window schedules + sanitizers: delayed sends/cancels recorded with a monotonic clock (plain, TSan, ASan builds); scripts park the timer thread at schedule points between fire and deliver while <cancel>/destruction runs; hangs reported with gdb stack samples',
   text='Exploration: timing charts with 4-14 delayed sends and cancels (not-early and exactly-once hard, order/cancel rules with 50 ms margin) and eight forced-window scripts (cancel, reset() and destruction while the timer thread sits in a delivery, send during a callback); outcome of a racing cancel must be 0 or 1 delivery without deadlock, crash, double delivery or sanitizer report. Charts also send to #_internal (must wake a sleeping stepper and keep due order), to targets that do not exist (error.communication, no abort on the timer thread) and execute one send id several times before cancelling it; delays come as 50ms, 50, 0.050s, .050s, 50 ms (with a blank) and delayexpr, ids also through idlocation + sendidexpr; external events are only taken after a stable notice, also behind events the timer thread put into the internal queue (per-queue due order).',
   note='Real time is involved: only lower bounds and generous margins are judged. A script whose window is never reached makes the run inconclusive.',
   ref='DESIGN.md 3/C09'),
 'C10': dict(
   technique='online life-cycle automaton over step() results of seeded API scripts (ASan), cross-thread cancel/receive/destroy runs and create/destroy churn with forced timer-thread windows (TSan/ASan), reset-vs-fresh trace equality; hangs with gdb stack evidence',
   text='Exploration: 400+ API scripts over {step, receive, cancel, reset, serialize, destroy, create}; stepper blocked in step() cancelled/fed from another thread must finish with each onexit once and destruction returning; churn of short-lived interpreters with yields at the lost-wake-up window; trace(h1; reset; h2) = trace(fresh h2). Also without an explicit micro-stepper (default engine path); reset() after cancel, mid-macrostep, with a history recorded by the first life, while producers call receive() (TSan/ASan), while an invoked session runs, and while the timer thread sits in a delivery; CANCELLED only after cancel().',
   note='"Always terminates" = terminated within the watchdog in every explored schedule. Unbounded liveness is outside runtime monitoring.',
   ref='DESIGN.md 3/C10'),
 'C11': dict(
   technique='history checker over recorded multi-session executions + ThreadSanitizer/AddressSanitizer: parent/child chart pairs from a parameterised template run with the monitor copied to the invoked sessions, seeded yields and forced schedules at the USCXML_VERIF points in USCXMLInvoker::run/stop and the queues; offline start/stop, done.invoke, silence-after-cancel, routing/FIFO/exactly-once and finalize checker; watchdog with gdb stacks',
   text='Exploration of chart pairs x timings x schedules: child finishing early/late/never, parent leaving the invoking state early/late/never/within the same macrostep or re-entering it, one or two children, autoforward and finalize; every rule of the property is decided on the merged, globally sequenced records of all sessions; data races with a frame in the invoker/interpreter/queue files are violations.',
   note='Interleavings are sampled and forced at hook sites, not enumerated. done.invoke and the farewell event are optional when completion and cancellation overlap in the recorded order. Only the scxml invoker with inline <content> is exercised (no src=, which needs the URL fetcher thread).',
   ref='DESIGN.md 3/C11'),
 'C19': dict(
   technique='runtime oracle on Interpreter::validate(): valid-by-construction documents must get no FATAL/syntax issue; single-fault documents that pass validation are executed on both engines (ASan/UBSan, legality monitor) and transformed; XML mutants validate without crash',
   text='Exploration: 400 valid documents (id-less states, multi-target deep initials, real lua/promela expressions) and 600 single-fault documents of 14 kinds per quick run; "no fatal issue" must imply a safe run (no crash, no exception at initialisation, legal configurations) and a safe transformation.',
   note='"Valid" = valid by the generator\'s construction rules. A reported fault is counted, not judged.',
   ref='DESIGN.md 3/C19'),

 'C14': dict(
   technique='history + differential runtime monitor: snapshot (serialize) at every stable point of generated runs, resume (deserialize) in a fresh interpreter, both driven with the same continuation and every callback/log/configuration/data record compared; negative oracle with a foreign document; ASan/UBSan build',
   text='Exploration: documents x histories x every stable point (with 0-2 external events still queued, and with delayed sends pending) x both engines; the resumed trace must equal the original from the first processed event on; a state string of a document differing by one comment must be rejected. Delayed sends pending at the snapshot (also cancelled by id or addressed to #_internal afterwards) must be delivered by the resumed session. Also: snapshots taken while delayed events are just becoming due (each must arrive exactly once after the resume) and snapshots of finished sessions (the resumed session is finished).',
   note='Trusted: recording driver vdrv. Resume prologue (step results before the first event) not compared. Invokers are not snapshotted in this check.',
   ref='DESIGN.md 3/C14'),

 'C20': dict(
   technique='differential runtime monitor across processes on a non-sanitized build: same document/URL transformed (vxform and the real uscxml-transform binary) and interpreted in fresh processes with perturbed memory layouts (env padding, malloc tunables) and cold/warm cache files; emitted bytes and traces compared',
   text='Exploration: seeded random and hand-shaped stress documents (nested invoked machines with ids, event names with non-identifier characters) x back-ends x 3-4 processes with different layouts; any byte difference between outputs, or any difference between interpreter traces (both engines, cache cold then warm), is a violation.',
   note='Trusted: ASLR and glibc malloc tunables do perturb addresses (plain build). Determinism across machines/compilers (std::hash) cannot be observed in one sandbox.',
   ref='DESIGN.md 3/C20'),

 'C06': dict(
   technique='differential runtime monitor on the real artefact: ChartToPromela output executed by the spin simulator (spin -T, 3 seeds, never the pan verifier); TRACE_EXECUTION output compared with the interpreter history of the same document',
   text='Exploration: seeded random promela-datamodel documents whose events are produced by the document itself are transpiled, simulated with spin and compared step by step (event, exits, entries, transitions, log values, final configuration) with the interpreter; seeds sample the executions of the (deterministic) model.',
   note='Trusted: spin simulator, index mapping in vf/tables.py. "Every execution" is sampled by simulation seeds, not enumerated. Nested machines excluded.',
   ref='DESIGN.md 3/C06'),

 'C04': dict(
   technique='differential runtime monitor on the real artefact: ChartToC output compiled (gcc -fsanitize=address,undefined,bounds and plain -O2, emitted sizing macros) and driven by a C scaffold with the same history as the interpreter; projected histories compared; sanitizer reports in the emitted step function',
   text='Exploration: seeded random documents (+ documents padded to the byte boundaries of the sizing macros) are transpiled, compiled twice and executed; dequeued events, log lines with values, configuration after each micro step and final data must equal the interpreter trace; ASan/UBSan(bounds) watch the emitted code. Further families: 255/256/257 states or transitions (index types), documents whose first state invokes a larger inline machine (driven inside the scaffold, sanitizers only), <send> with <param>s read back through _event.data, <foreach>/<script>, and the delay handed to the send callback (fractions of a second, upper-case units).',
   note='Trusted: scaffold harness/genc_main.c (integer datamodel fragment, reference matcher), gcc sanitizers. Invoked (nested) machines are driven inside the scaffold with synthetic events for memory safety under the shared sizing macros; their behaviour is not compared.',
   ref='DESIGN.md 3/C04'),
 'C05': dict(
   technique='runtime oracle comparison on real transformer output: annotated DOM and the tables embedded in emitted C/Promela/VHDL parsed and compared with relations recomputed from the source document; transformers run under ASan/UBSan',
   text='Exploration, exhaustive for family E (<=3 states): documentOrder/postFixOrder/parent/children/ancestors/completion/targets/exit sets/conflicts of every state and transition are recomputed independently and compared with all four embeddings, which must also agree with each other.',
   note='Trusted: vf/tables.py oracle and parsers. Conflict relation expected = transpilers\' relation (same/ancestor-related sources or static exit sets intersect).',
   ref='DESIGN.md 3/C05'),
 'C18': dict(
   technique='execution of the emitted artefact by a boolean netlist evaluator: the combinational equations ChartToVHDL emits are evaluated for every legal configuration x event/spontaneous x condition valuation and compared with the reference step under the static conflict relation',
   text='Exploration, exhaustive per document: all legal configurations x (events + spontaneous step) x 2^k condition valuations; intermediate signals (optimal transition set, exit set) and the next-state vector are compared with vf/refscxml.py (static_select/static_domain).',
   note='Trusted: vf/vhdl_eval.py (three-valued fixpoint netlist interpreter, self-tested), reference step. No VHDL simulator is installed; the clocked part is not simulated.',
   ref='DESIGN.md 3/C18'),

 'C01': dict(
   technique='history + executable reference model: every monitor callback, log line, step result and configuration of the real interpreter (ASan/UBSan build) compared step by step with an Appendix-D reference run on the same document and history; seeded random and exhaustively enumerated documents',
   text='Exploration: seeded random valid documents over the whole structural vocabulary, rendered for lua/promela/null, plus every document of the enumerated family E, each run compared step-by-step (exits, transitions, entries, content, events, done events, configuration, data) with an independent transcription of Appendix D. Decides the executions produced; known deviations are matched exactly against reference variants.',
   note='Trusted: vf/refscxml.py (reference), vf/chart.py (valid-by-construction generator), the recording driver. Fragment: no invoke/delay/script. Macrosteps over 64 microsteps are discarded.',
   ref='DESIGN.md 3/C01'),
 'C02': dict(
   technique='runtime invariant monitor: Rec. 3.11 legality predicate evaluated on the configuration reported after every micro step of both engines (and of emitted C machines), root entry/exit counters; ASan/UBSan build',
   text='Exploration: the same generated/enumerated documents and histories as C01 are run on engines large and fast; after initialisation and every micro step the active configuration is checked against the legality predicate computed from the source document, and <scxml> must be entered once and not exited before completion.',
   note='Trusted: legality predicate in vf/chart.py. Only configurations reached by the explored histories are judged. FATAL-validated documents are skipped.',
   ref='DESIGN.md 3/C02'),
 'C03': dict(
   technique='differential runtime monitor: identical document+history executed with engine large and engine fast, complete recorded callback/log/step-result sequences compared line by line (generated documents, family E, W3C IRP corpus)',
   text='Exploration: every difference between the two recorded traces is a violation unless it is exactly explained by the listed finding (fast = static conflict matrix), which is established by exact equality of both traces with the corresponding reference runs.',
   note='Trusted: the recording driver is engine-agnostic. IRP documents with delay/invoke/src are excluded from line-exact comparison.',
   ref='DESIGN.md 3/C03'),
 'C13': dict(
   technique='online push-down protocol checker over every InterpreterMonitor callback recorded from both engines on generated runs incl. injected failing elements, cancel scripts and top-level-final runs',
   text='Exploration: balanced/nested brackets, phase order exits->transitions->entries, nothing outside brackets but the allowed notices, content inside its owner bracket, configuration explained by reported exits/entries, log lines inside their <log> bracket, one stable notice per macrostep. Further modes: states with inline invoked sessions (incl. one that cannot be started), delayed sends whose events arrive from the timer thread while the session is idle, a second monitor attached and detached while the session runs (must see exactly the account of the first one in between), and the lambda front end Interpreter::on() registered for all before / all after notices.',
   note='Trusted: vf/protocol.py automaton; completeness is judged against logs/configurations/events only.',
   ref='DESIGN.md 3/C13'),
 'C12': dict(
   technique='runtime differential monitor: the real matchers (uscxml::nameMatch, shipped C scaffolding, both engines, emitted C/Promela/VHDL) run on enumerated+random inputs against an executable reference relation; ASan/UBSan build',
   text='Exploration: every pair (descriptor list, name) of a bounded alphabet is put to every subject (exhaustive for the stated bound), plus seeded random longer ones; answers are compared with a 12-line reference of Rec. 3.12.1. Right level because the relation is finite-state and the bounded space covers every branch of the hand-written scanner.',
   note='Trusted: vf/match.py reference relation; descriptor lists are well formed. Held on the pairs explored only.',
   ref='DESIGN.md 3/C12'),
}

PENDING = {}
for i in range(1, 21):
    pid = 'C%02d' % i
    if pid not in CHECKS:
        PENDING[pid] = 'check not built yet in this round (planned: see DESIGN.md section 3/%s); not claimed until its monitor runs clean on the unchanged tree' % pid

def main():
    hooks_commits = [l.strip() for l in open(os.path.join(V, 'hooks_commits.txt'))] if os.path.exists(os.path.join(V, 'hooks_commits.txt')) else []
    m = {
     'version': 1,
     'setup_cmd': 'bin/setup.sh',
     'hooks': {
        'guard': 'USCXML_VERIF',
        'enable': 'bin/vbuild <asan|tsan|plain> configures cmake with -DUSCXML_VERIF in CMAKE_C(XX)_FLAGS; every check calls it (incremental ninja) before running',
        'baseline_off_cmd': 'bin/baseline_off.sh',
        'source_commits': hooks_commits,
        'add_only': True,
     },
     'engines': [
        {'name': 'vf', 'path': 'vf/', 'serves_properties': sorted(CHECKS), 'kind_free_text': 'python orchestration: generators, reference models, offline checkers over recorded traces'},
        {'name': 'harness', 'path': 'harness/', 'serves_properties': sorted(CHECKS), 'kind_free_text': 'C++ drivers linked against sanitizer builds of libuscxml (asan+ubsan, tsan, plain)'},
     ],
     'checks': [],
     'notes': 'Technique family: runtime monitoring and sanitizers. See DESIGN.md. known_findings.txt lists genuine defects (recorded or fixed).',
     'not_applicable': [{'property_id': k, 'reason': v} for k, v in sorted(PENDING.items())],
    }
    for pid in sorted(CHECKS):
        c = CHECKS[pid]
        m['checks'].append({
          'property_id': pid,
          'quick_cmd': 'bin/check %s quick' % pid,
          'thorough_cmd': 'bin/check %s thorough' % pid,
          'evidence_file': 'evidence/%s.json' % pid,
          'replay_cmd_template': 'bin/check %s --replay {path}' % pid,
          'engine': 'vf',
          'level_claimed': {'category': c.get('level', 'exploration'), 'text': c['text'], 'design_ref': c['ref']},
          'level_note': c['note'],
          'technique': c['technique'],
        })
    json.dump(m, open(os.path.join(V, 'MANIFEST.json'), 'w'), indent=1)
    try:
        import jsonschema
        jsonschema.validate(m, json.load(open('/root/.vp/MANIFEST.schema.json')))
        print('MANIFEST valid;', len(m['checks']), 'checks,', len(m['not_applicable']), 'not applicable')
    except ImportError:
        print('MANIFEST written (jsonschema not importable here)')

if __name__ == '__main__':
    main()
