#!/usr/bin/env python3
"""Generates /verif/MANIFEST.json from the table below (run after adding a check)."""
import json, os, sys
V = os.path.dirname(os.path.dirname(os.path.abspath(__file__)))

CHECKS = {

 'C14': dict(
   technique='history + differential runtime monitor: snapshot (serialize) at every stable point of generated runs, resume (deserialize) in a fresh interpreter, both driven with the same continuation and every callback/log/configuration/data record compared; negative oracle with a foreign document; ASan/UBSan build',
   text='Exploration: documents x histories x every stable point (with 0-2 external events still queued, and with delayed sends pending) x both engines; the resumed trace must equal the original from the first processed event on; a state string of a document differing by one comment must be rejected.',
   note='Trusted: recording driver vdrv. Resume prologue (step results before the first event) not compared. Invokers are not snapshotted in this check.',
   ref='DESIGN.md 3/C14'),

 'C20': dict(
   technique='differential runtime monitor across processes on a non-sanitized build: same document/URL transformed (vxform and the real uscxml-transform binary) and interpreted in fresh processes with perturbed memory layouts (env padding, malloc tunables) and cold/warm cache files; emitted bytes and traces compared',
   text='Exploration: seeded random and hand-shaped stress documents (nested invoked machines with ids, event names with non-identifier characters) x back-ends x 3-4 processes with different layouts; any byte difference between outputs, or any difference between interpreter traces (both engines, cache cold then warm), is a violation.',
   note='Trusted: ASLR and glibc malloc tunables do perturb addresses (plain build). Determinism across machines/compilers (std::hash) cannot be observed in one sandbox.',
   ref='DESIGN.md 3/C20'),

 'C06': dict(
   technique='differential runtime monitor on the real artefact: ChartToPromela output executed by the spin simulator (spin -T, 3 seeds, never the pan verifier); TRACE_EXECUTION output compared with the interpreter history of the same document',
   text='Exploration: seeded random promela-datamodel documents whose events are produced by the document itself are transpiled, simulated with spin and compared step by step (event, exits, entries, transitions, log values, final configuration) with the interpreter; seeds sample the executions of the (deterministic) model.',
   note='Trusted: spin simulator, index mapping in vf/tables.py. "Every execution" is sampled by simulation seeds, not enumerated. Nested machines excluded.',
   ref='DESIGN.md 3/C06'),

 'C04': dict(
   technique='differential runtime monitor on the real artefact: ChartToC output compiled (gcc -fsanitize=address,undefined,bounds and plain -O2, emitted sizing macros) and driven by a C scaffold with the same history as the interpreter; projected histories compared; sanitizer reports in the emitted step function',
   text='Exploration: seeded random documents (+ documents padded to the byte boundaries of the sizing macros) are transpiled, compiled twice and executed; dequeued events, log lines with values, configuration after each micro step and final data must equal the interpreter trace; ASan/UBSan(bounds) watch the emitted code.',
   note='Trusted: scaffold harness/genc_main.c (integer datamodel fragment, reference matcher), gcc sanitizers. Invoke only compiled, not executed.',
   ref='DESIGN.md 3/C04'),
 'C05': dict(
   technique='runtime oracle comparison on real transformer output: annotated DOM and the tables embedded in emitted C/Promela/VHDL parsed and compared with relations recomputed from the source document; transformers run under ASan/UBSan',
   text='Exploration, exhaustive for family E (<=3 states): documentOrder/postFixOrder/parent/children/ancestors/completion/targets/exit sets/conflicts of every state and transition are recomputed independently and compared with all four embeddings, which must also agree with each other.',
   note='Trusted: vf/tables.py oracle and parsers. Conflict relation expected = transpilers\' relation (same/ancestor-related sources or static exit sets intersect).',
   ref='DESIGN.md 3/C05'),
 'C18': dict(
   technique='execution of the emitted artefact by a boolean netlist evaluator: the combinational equations ChartToVHDL emits are evaluated for every legal configuration x event/spontaneous x condition valuation and compared with the reference step under the static conflict relation',
   text='Exploration, exhaustive per document: all legal configurations x (events + spontaneous step) x 2^k condition valuations; intermediate signals (optimal transition set, exit set) and the next-state vector are compared with vf/refscxml.py (static_select/static_domain).',
   note='Trusted: vf/vhdl_eval.py (three-valued fixpoint netlist interpreter, self-tested), reference step. No VHDL simulator is installed; the clocked part is not simulated.',
   ref='DESIGN.md 3/C18'),

 'C01': dict(
   technique='history + executable reference model: every monitor callback, log line, step result and configuration of the real interpreter (ASan/UBSan build) compared step by step with an Appendix-D reference run on the same document and history; seeded random and exhaustively enumerated documents',
   text='Exploration: seeded random valid documents over the whole structural vocabulary, rendered for lua/promela/null, plus every document of the enumerated family E, each run compared step-by-step (exits, transitions, entries, content, events, done events, configuration, data) with an independent transcription of Appendix D. Decides the executions produced; known deviations are matched exactly against reference variants.',
   note='Trusted: vf/refscxml.py (reference), vf/chart.py (valid-by-construction generator), the recording driver. Fragment: no invoke/delay/script. Macrosteps over 64 microsteps are discarded.',
   ref='DESIGN.md 3/C01'),
 'C02': dict(
   technique='runtime invariant monitor: Rec. 3.11 legality predicate evaluated on the configuration reported after every micro step of both engines (and of emitted C machines), root entry/exit counters; ASan/UBSan build',
   text='Exploration: the same generated/enumerated documents and histories as C01 are run on engines large and fast; after initialisation and every micro step the active configuration is checked against the legality predicate computed from the source document, and <scxml> must be entered once and not exited before completion.',
   note='Trusted: legality predicate in vf/chart.py. Only configurations reached by the explored histories are judged. FATAL-validated documents are skipped.',
   ref='DESIGN.md 3/C02'),
 'C03': dict(
   technique='differential runtime monitor: identical document+history executed with engine large and engine fast, complete recorded callback/log/step-result sequences compared line by line (generated documents, family E, W3C IRP corpus)',
   text='Exploration: every difference between the two recorded traces is a violation unless it is exactly explained by the listed finding (fast = static conflict matrix), which is established by exact equality of both traces with the corresponding reference runs.',
   note='Trusted: the recording driver is engine-agnostic. IRP documents with delay/invoke/src are excluded from line-exact comparison.',
   ref='DESIGN.md 3/C03'),
 'C13': dict(
   technique='online push-down protocol checker over every InterpreterMonitor callback recorded from both engines on generated runs incl. injected failing elements, cancel scripts and top-level-final runs',
   text='Exploration: balanced/nested brackets, phase order exits->transitions->entries, nothing outside brackets but the allowed notices, content inside its owner bracket, configuration explained by reported exits/entries, log lines inside their <log> bracket, one stable notice per macrostep.',
   note='Trusted: vf/protocol.py automaton; completeness is judged against logs/configurations/events only.',
   ref='DESIGN.md 3/C13'),
 'C12': dict(
   technique='runtime differential monitor: the real matchers (uscxml::nameMatch, shipped C scaffolding, both engines, emitted C/Promela/VHDL) run on enumerated+random inputs against an executable reference relation; ASan/UBSan build',
   text='Exploration: every pair (descriptor list, name) of a bounded alphabet is put to every subject (exhaustive for the stated bound), plus seeded random longer ones; answers are compared with a 12-line reference of Rec. 3.12.1. Right level because the relation is finite-state and the bounded space covers every branch of the hand-written scanner.',
   note='Trusted: vf/match.py reference relation; descriptor lists are well formed. Held on the pairs explored only.',
   ref='DESIGN.md 3/C12'),
}

PENDING = {}
for i in range(1, 21):
    pid = 'C%02d' % i
    if pid not in CHECKS:
        PENDING[pid] = 'check not built yet in this round (planned: see DESIGN.md section 3/%s); not claimed until its monitor runs clean on the unchanged tree' % pid

def main():
    hooks_commits = [l.strip() for l in open(os.path.join(V, 'hooks_commits.txt'))] if os.path.exists(os.path.join(V, 'hooks_commits.txt')) else []
    m = {
     'version': 1,
     'setup_cmd': 'bin/setup.sh',
     'hooks': {
        'guard': 'USCXML_VERIF',
        'enable': 'bin/vbuild <asan|tsan|plain> configures cmake with -DUSCXML_VERIF in CMAKE_C(XX)_FLAGS; every check calls it (incremental ninja) before running',
        'baseline_off_cmd': 'bin/baseline_off.sh',
        'source_commits': hooks_commits,
        'add_only': True,
     },
     'engines': [
        {'name': 'vf', 'path': 'vf/', 'serves_properties': sorted(CHECKS), 'kind_free_text': 'python orchestration: generators, reference models, offline checkers over recorded traces'},
        {'name': 'harness', 'path': 'harness/', 'serves_properties': sorted(CHECKS), 'kind_free_text': 'C++ drivers linked against sanitizer builds of libuscxml (asan+ubsan, tsan, plain)'},
     ],
     'checks': [],
     'notes': 'Technique family: runtime monitoring and sanitizers. See DESIGN.md. known_findings.txt lists genuine defects (recorded or fixed).',
     'not_applicable': [{'property_id': k, 'reason': v} for k, v in sorted(PENDING.items())],
    }
    for pid in sorted(CHECKS):
        c = CHECKS[pid]
        m['checks'].append({
          'property_id': pid,
          'quick_cmd': 'bin/check %s quick' % pid,
          'thorough_cmd': 'bin/check %s thorough' % pid,
          'evidence_file': 'evidence/%s.json' % pid,
          'replay_cmd_template': 'bin/check %s --replay {path}' % pid,
          'engine': 'vf',
          'level_claimed': {'category': c.get('level', 'exploration'), 'text': c['text'], 'design_ref': c['ref']},
          'level_note': c['note'],
          'technique': c['technique'],
        })
    json.dump(m, open(os.path.join(V, 'MANIFEST.json'), 'w'), indent=1)
    try:
        import jsonschema
        jsonschema.validate(m, json.load(open('/root/.vp/MANIFEST.schema.json')))
        print('MANIFEST valid;', len(m['checks']), 'checks,', len(m['not_applicable']), 'not applicable')
    except ImportError:
        print('MANIFEST written (jsonschema not importable here)')

if __name__ == '__main__':
    main()
