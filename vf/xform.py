"""Running vxform in batches."""
import os, subprocess
from vf import common

def transform_batch(binary, jobs, outdir, url=None, timeout=None):
    """jobs: [(id, type, xml)] -> {id: ('ok'|'fail'|'crash', info)}; outputs in outdir/<id>.<type>[.ann.xml]"""
    res = {}
    pending = list(jobs)
    while pending:
        inp = b''
        for jid, typ, xml in pending:
            xb = xml.encode('utf-8')
            inp += ('JOB %s %s %d %s\n' % (jid, typ, len(xb), url or '')).encode() + xb + b'\n'
        rc, out, err, to = common.run_proc([binary, outdir], inp=inp, timeout=timeout or (60 + 3 * len(pending)), text=False)
        out = (out or b'').decode('utf-8', 'replace'); err = (err or b'').decode('utf-8', 'replace')
        cur = None; done = set()
        for ln in out.split('\n'):
            if ln.startswith('JOB '): cur = ln[4:].strip()
            elif ln.startswith('DONE '): res[ln[5:].strip()] = ('ok', None); done.add(ln[5:].strip()); cur = None
            elif ln.startswith('FAIL '):
                p = ln.split(' ', 2); res[p[1]] = ('fail', p[2] if len(p) > 2 else ''); done.add(p[1]); cur = None
        if cur is not None and cur not in done:
            res[cur] = ('timeout' if to else 'crash', common.sanitizer_summary(err) or ('rc=%s %s' % (rc, err[-600:])), err[-4000:]); done.add(cur)
        elif (rc != 0 or to) and len(done) < len(pending):
            nxt = [j[0] for j in pending if j[0] not in done][0]
            res[nxt] = ('timeout' if to else 'crash', common.sanitizer_summary(err) or ('rc=%s %s' % (rc, err[-600:])), err[-4000:]); done.add(nxt)
        newp = [j for j in pending if j[0] not in done]
        if len(newp) == len(pending): break
        pending = newp
    return res
