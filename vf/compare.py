"""Step-aligned comparison of a recorded implementation trace with the reference history (first divergence only)
and classification of that divergence into a finding key from its local context (DESIGN.md 2.5)."""
from vf import chart as C


def _norm_acts(acts, dm):
    out = []
    for a in acts:
        if a[0] == 'log' and (dm == 'null' or (dm == 'promela' and a[1].startswith('RV'))): out.append(('log', a[1], None))   # RV: _event.name, rendered for lua only
        else: out.append(tuple(a))
    return out


def first_divergence(rsteps, usteps, dm, ref=None, impl=None):
    """Returns None or dict(step=i, kind=..., ref=step, impl=step)."""
    u = [s for s in usteps if s.get('ev') != '#outside']
    r = list(rsteps)
    for i in range(max(len(r), len(u))):
        if i >= len(r): return {'step': i, 'kind': 'extra-step-in-impl', 'ref': None, 'impl': u[i]}
        if i >= len(u): return {'step': i, 'kind': 'missing-step-in-impl', 'ref': r[i], 'impl': None}
        a, b = r[i], u[i]
        if (a['ev'] or None) != (b['ev'] or None):
            return {'step': i, 'kind': 'event-differs', 'ref': a, 'impl': b}
        ra, ua = _norm_acts(a['acts'], dm), _norm_acts(b['acts'], dm)
        if ra != ua:
            return {'step': i, 'kind': 'actions-differ', 'ref': a, 'impl': b}
        if a.get('conf') is not None and b.get('conf') is not None and a['conf'] != b['conf']:
            return {'step': i, 'kind': 'config-differs', 'ref': a, 'impl': b}
    return None


def sel(acts, kind):
    return [a[1:] if len(a) > 2 else a[1] for a in acts if a[0] == kind]


def classify(ch, d, dm, engine):
    """Finding key of a first divergence. Keys are predicates over the local context of the differing micro-step."""
    kind = d['kind']
    a, b = d['ref'], d['impl']
    if a is None or b is None:
        return kind
    if kind == 'event-differs':
        return 'event-differs'
    ra, ua = _norm_acts(a['acts'], dm), _norm_acts(b['acts'], dm)
    rex, uex = [x[1] for x in ra if x[0] == 'exit'], [x[1] for x in ua if x[0] == 'exit']
    ren, uen = [x[1] for x in ra if x[0] == 'enter'], [x[1] for x in ua if x[0] == 'enter']
    rtr, utr = [x[1:] for x in ra if x[0] == 'trans'], [x[1:] for x in ua if x[0] == 'trans']
    by = ch.by_id

    def tr(t):
        return by[t[0]].trans[t[1]]
    if kind == 'actions-differ' and rtr == utr:
        hist_t = [(t, by[x]) for t in rtr for x in tr(t).targets if by[x].kind == 'history']
        hs = [q for q in ch.doc if q.kind == 'history']
        nested = any(a is not b and a.htype == 'deep' and (C.is_descendant(b.parent, a.parent)) for a in hs for b in hs)
        # K9: one shared store for all history states: a deep history and a nested history overwrite/erase each other's memory
        if hist_t and nested and (rex == uex or C.is_legal_configuration(ch, b.get('conf') or []) is not None):
            return 'nested-history-shared-store'
        # K10: transition domain computed from the history pseudo-state instead of its effective targets (over-exit)
        if hist_t and set(uex) > set(rex) and any(C.is_descendant(by[t[0]], h.parent) and
                                                  (h.htype == 'deep' or any(by[x].parent is not h.parent for x in h.trans[0].targets)) for t, h in hist_t):
            return 'history-target-static-domain'
    if kind == 'actions-differ':
        # same multiset of transitions, different order of execution
        if sorted(rtr) == sorted(utr) and rtr != utr and rex == uex and ren == uen:
            return 'transition-content-order'
        if set(utr) - set(rtr) or set(rtr) - set(utr):
            extra = [t for t in utr if t not in rtr]
            missing = [t for t in rtr if t not in utr]
            if extra and not missing:
                # an additional transition was taken although a descendant's transition pre-empts it
                if all(any(C.is_descendant(by[q[0]], by[e[0]]) for q in rtr) for e in extra):
                    if any(not tr(q).targets for q in rtr):
                        return 'targetless-does-not-preempt-ancestor'
                    return 'ancestor-transition-not-preempted'
                return 'extra-transition-taken'
            if missing and not extra:
                if any(not tr(q).targets for q in utr):
                    return 'transition-dropped-beside-targetless'
                return 'transition-dropped'
            return 'different-transition-set'
        if rtr == utr:
            if rex == uex and ren != uen:
                # entry set differs
                hist_targets = [x for t in rtr for x in tr(t).targets if by[x].kind == 'history']
                if hist_targets and any(by[h].parent.id in a.get('before', []) and by[h].parent.id not in rex for h in hist_targets):
                    return 'history-of-active-parent'
                missing = [s for s in ren if s not in uen]
                extra = [s for s in uen if s not in ren]
                if missing and not extra:
                    return 'entry-set-missing-states'
                if extra and not missing:
                    return 'entry-set-extra-states'
                if sorted(ren) == sorted(uen):
                    return 'entry-order'
                return 'entry-set-differs'
            if rex != uex:
                if sorted(rex) == sorted(uex): return 'exit-order'
                if set(uex) - set(rex) == {'root'}: return 'root-exited'
                return 'exit-set-differs'
            # same structure, different logs / content
            rl = [x for x in ra if x[0] == 'log']; ul = [x for x in ua if x[0] == 'log']
            if [x[1] for x in rl] == [x[1] for x in ul]:
                return 'log-value-differs'
            return 'content-differs'
    if kind == 'config-differs':
        return 'config-differs'
    return kind
