"""Abstract SCXML chart model, per-datamodel renderer, structural definitions (from the Recommendation),
seeded random generator and the enumerated family E. Shared by C01-C06, C13, C14, C18-C20."""
import random, itertools, hashlib, json


# ----------------------------------------------------------------------------- model
class St:
    def __init__(s, sid, kind, parent=None, htype=None):
        s.id, s.kind, s.parent, s.htype = sid, kind, parent, htype   # kind: scxml|state|parallel|final|history
        s.children = []       # all child St (incl. history) in document order
        s.trans = []          # Tr
        s.onentry = []        # list of blocks (each a list of actions)
        s.onexit = []
        s.initial_attr = None # list of ids
        s.initial_elem = None # (targets, content)
        s.data = []           # [(name, int)] late-bound data declared in this state
        s.order = None

    def states(s):
        return [c for c in s.children if c.kind != 'history']

    def histories(s):
        return [c for c in s.children if c.kind == 'history']


class Tr:
    def __init__(t, source, events, cond, targets, internal, content):
        t.source, t.events, t.cond, t.targets, t.internal, t.content = source, events, cond, targets, internal, content
        t.idx = None


class Chart:
    def __init__(c, root, binding='early', data=None, name=None):
        c.root, c.binding, c.data = root, binding, (data or {})
        c.name = name
        c.reindex()

    def reindex(c):
        c.by_id = {}
        c.doc = []

        def walk(s):
            s.order = len(c.doc); c.doc.append(s); c.by_id[s.id] = s
            for ch in s.children:
                ch.parent = s
                walk(ch)
        walk(c.root)
        for s in c.doc:
            for i, t in enumerate(s.trans):
                t.idx = i; t.source = s

    def proper(c):
        return [s for s in c.doc if s.kind in ('state', 'parallel', 'final')]

    def transitions(c):
        return [t for s in c.doc if s.kind != 'history' for t in s.trans]

    def features(c):
        f = set()
        for s in c.doc:
            if s.kind == 'parallel': f.add('parallel')
            if s.kind == 'history': f.add('history-' + s.htype)
            if s.kind == 'final': f.add('final')
            if s.initial_elem: f.add('initial-elem')
            if s.initial_attr:
                f.add('initial-attr')
                if len(s.initial_attr) > 1: f.add('initial-multi')
                if any(c.by_id[i].parent is not s for i in s.initial_attr): f.add('initial-deep')
            if s.data: f.add('late-data')
            if s.kind == 'history': continue
            for t in s.trans:
                if not t.targets: f.add('targetless')
                if t.internal: f.add('internal')
                if len(t.targets) > 1: f.add('multi-target')
                if not t.events: f.add('eventless')
                if any(c.by_id[x].kind == 'history' for x in t.targets): f.add('history-target')
                for a in walk_actions(t.content):
                    f.add('act-' + a[0])
            for b in s.onentry + s.onexit:
                for a in walk_actions(b):
                    f.add('act-' + a[0])
        return f


def walk_actions(acts):
    for a in acts:
        yield a
        if a[0] == 'if':
            for _, body in a[1]:
                for x in walk_actions(body): yield x
            if a[2]:
                for x in walk_actions(a[2]): yield x
        elif a[0] == 'foreach':
            for x in walk_actions(a[4]): yield x


def is_atomic(s):
    return s.kind == 'final' or (s.kind == 'state' and not s.states())


def is_compound(s):
    return s.kind in ('state', 'scxml') and len(s.states()) > 0


def is_parallel(s):
    return s.kind == 'parallel'


def is_history(s):
    return s.kind == 'history'


def is_descendant(a, b):
    p = a.parent
    while p is not None:
        if p is b: return True
        p = p.parent
    return False


def proper_ancestors(s, upto=None):
    r = []; p = s.parent
    while p is not None and p is not upto:
        r.append(p); p = p.parent
    return r


# ----------------------------------------------------------------------------- expressions (abstract)
# ('const',n) ('var',v) ('add',a,b) ('sub',a,b) ('true',) ('in',sid) ('eq',a,b) ('lt',a,b) ('not',e)
def ev_expr(e, env, conf):
    k = e[0]
    if k == 'const': return e[1]
    if k == 'var': return env[e[1]]
    if k == 'add': return ev_expr(e[1], env, conf) + ev_expr(e[2], env, conf)
    if k == 'sub': return ev_expr(e[1], env, conf) - ev_expr(e[2], env, conf)
    if k == 'true': return True
    if k == 'in': return e[1] in conf
    if k == 'eq': return ev_expr(e[1], env, conf) == ev_expr(e[2], env, conf)
    if k == 'lt': return ev_expr(e[1], env, conf) < ev_expr(e[2], env, conf)
    if k == 'not': return not ev_expr(e[1], env, conf)
    if k == 'or': return bool(ev_expr(e[1], env, conf)) or bool(ev_expr(e[2], env, conf))
    if k == 'list': return list(e[1])
    if k == 'evname': return env['_evname']
    if k == 'evis': return env.get('_evname') == e[1]
    if k == 'evdata': return env['_evdata'][e[1]]
    raise ValueError(e)


def rn_expr(e, dm):
    k = e[0]
    if k == 'const': return str(e[1])
    if k == 'var': return e[1]
    if k == 'add': return '%s + %s' % (rn_expr(e[1], dm), rn_expr(e[2], dm))
    if k == 'sub': return '%s - %s' % (rn_expr(e[1], dm), rn_expr(e[2], dm))
    if k == 'true': return 'true'
    if k == 'in': return {'lua': "In('%s')", 'promela': 'config[%s]', 'null': "In('%s')"}[dm] % e[1]
    if k == 'eq': return '%s == %s' % (rn_expr(e[1], dm), rn_expr(e[2], dm))
    if k == 'lt': return '%s < %s' % (rn_expr(e[1], dm), rn_expr(e[2], dm))
    if k == 'not': return ('not (%s)' if dm == 'lua' else '!(%s)') % rn_expr(e[1], dm)
    if k == 'or': return ('%s or %s' if dm != 'promela' else '%s || %s') % (rn_expr(e[1], dm), rn_expr(e[2], dm))    # deliberately without parentheses around the whole
    if k == 'list': return ('{%s}' if dm == 'lua' else '[%s]') % ','.join(str(x) for x in e[1])
    if k == 'evname': return '_event.name'
    if k == 'evdata': return '_event.data.%s' % e[1]
    if k == 'evis':        # lua only: true while the event bound to _event (the last one dequeued, matched or not) has this name
        assert dm == 'lua', 'evis is a lua-only condition'
        return "_event ~= nil and _event.name == '%s'" % e[1]
    raise ValueError(e)


def expr_uses_data(e):
    if e is None: return False
    if e[0] in ('var', 'const', 'add', 'sub', 'eq', 'lt', 'not', 'true', 'or', 'evis', 'evdata'):
        if e[0] in ('in',): return False
        if e[0] == 'not': return True   # the null datamodel only knows In()
        return True
    return False


# ----------------------------------------------------------------------------- rendering
def esc(s):
    return s.replace('&', '&amp;').replace('<', '&lt;').replace('"', '&quot;')


def rn_actions(acts, dm, ind):
    out = []
    for a in acts:
        if a[0] == 'log':
            ex = a[2]
            if dm == 'null': ex = None
            out.append('%s<log label="%s"%s/>' % (ind, a[1], (' expr="%s"' % esc(rn_expr(ex, dm))) if ex else ''))
        elif a[0] == 'raise': out.append('%s<raise event="%s"/>' % (ind, a[1]))
        elif a[0] == 'send': out.append('%s<send event="%s"/>' % (ind, a[1]))
        elif a[0] == 'sendint': out.append('%s<send event="%s" target="#_internal"/>' % (ind, a[1]))
        elif a[0] == 'sendp':        # ('sendp', event, [(param name, expr), ...]): the values travel in the event (_event.data.<name>)
            out.append('%s<send event="%s">%s</send>' % (ind, a[1], ''.join('<param name="%s" expr="%s"/>' % (n, esc(rn_expr(x, dm))) for n, x in a[2])))
        elif a[0] == 'assign': out.append('%s<assign location="%s" expr="%s"/>' % (ind, a[1], esc(rn_expr(a[2], dm))))
        elif a[0] == 'if':
            first = True
            for cond, body in a[1]:
                out.append('%s<%s cond="%s"%s>' % (ind, 'if' if first else 'elseif', esc(rn_expr(cond, dm)), '' if first else '/'))
                out += rn_actions(body, dm, ind + '  '); first = False
            if a[2] is not None:
                out.append('%s<else/>' % ind); out += rn_actions(a[2], dm, ind + '  ')
            out.append('%s</if>' % ind)
        elif a[0] == 'foreach':      # ('foreach', array, item, index, body)
            out.append('%s<foreach array="%s" item="%s"%s>' % (ind, a[1], a[2], (' index="%s"' % a[3]) if a[3] else ''))
            out += rn_actions(a[4], dm, ind + '  ')
            out.append('%s</foreach>' % ind)
        elif a[0] == 'script':       # ('script', var, expr): lua gets a <script>, the other datamodels the equivalent <assign>
            if dm == 'lua': out.append('%s<script>%s = %s</script>' % (ind, a[1], esc(rn_expr(a[2], dm))))
            else: out.append('%s<assign location="%s" expr="%s"/>' % (ind, a[1], esc(rn_expr(a[2], dm))))
        elif a[0] == 'logev':        # name of the event being processed (lua only; promela/null log the label alone)
            out.append('%s<log label="%s"%s/>' % (ind, a[1], ' expr="_event.name"' if dm == 'lua' else ''))
        elif a[0] == 'xml':          # verbatim element (fault injection etc.)
            out.append(ind + a[1])
        else:
            raise ValueError(a)
    return out


def rn_data(items, dm, ind):
    L = ['%s<datamodel>' % ind]
    for k, v in items:
        if isinstance(v, tuple) and v[0] == 'list':
            if dm == 'promela': L.append('%s  <data id="%s" type="int[%d]">%s</data>' % (ind, k, len(v[1]), rn_expr(v, dm)))
            else: L.append('%s  <data id="%s" expr="%s"/>' % (ind, k, rn_expr(v, dm)))
            continue
        # a value may be an expression over data declared before it (document order = sorted by name)
        L.append('%s  <data id="%s" %sexpr="%s"/>' % (ind, k, 'type="int" ' if dm == 'promela' else '', esc(rn_expr(v, dm)) if isinstance(v, tuple) else '%d' % v))
    L.append('%s</datamodel>' % ind)
    return L


def render(ch, dm, extra_root_attrs=''):
    L = []

    def w(s, ind):
        if s.kind == 'scxml':
            ia = (' initial="%s"' % ' '.join(s.initial_attr)) if s.initial_attr else ''
            L.append('<scxml xmlns="http://www.w3.org/2005/07/scxml" version="1.0"%s%s%s%s%s>' % (
                ia, (' datamodel="%s"' % dm) if dm != 'null' else '', ' binding="late"' if ch.binding == 'late' else '',
                (' name="%s"' % ch.name) if ch.name else '', extra_root_attrs))
            if ch.data and dm != 'null':
                L.extend(rn_data(sorted(ch.data.items()), dm, '  '))
        elif s.kind == 'history':
            L.append('%s<history id="%s" type="%s">' % (ind, s.id, s.htype))
        else:
            ia = (' initial="%s"' % ' '.join(s.initial_attr)) if s.initial_attr else ''
            L.append('%s<%s id="%s"%s>' % (ind, s.kind, s.id, ia))
            if s.data and dm != 'null':
                L.extend(rn_data(s.data, dm, ind + '  '))
        if s.initial_elem:
            L.append('%s  <initial><transition target="%s">' % (ind, ' '.join(s.initial_elem[0])))
            L.extend(rn_actions(s.initial_elem[1], dm, ind + '    '))
            L.append('%s  </transition></initial>' % ind)
        for b in s.onentry:
            L.append('%s  <onentry>' % ind); L.extend(rn_actions(b, dm, ind + '    ')); L.append('%s  </onentry>' % ind)
        for b in s.onexit:
            L.append('%s  <onexit>' % ind); L.extend(rn_actions(b, dm, ind + '    ')); L.append('%s  </onexit>' % ind)
        for t in s.trans:
            at = ''
            if t.events: at += ' event="%s"' % ' '.join(t.events)
            if t.cond: at += ' cond="%s"' % esc(rn_expr(t.cond, dm))
            if t.targets: at += ' target="%s"' % ' '.join(t.targets)
            if t.internal: at += ' type="internal"'
            if t.content:
                L.append('%s  <transition%s>' % (ind, at)); L.extend(rn_actions(t.content, dm, ind + '    ')); L.append('%s  </transition>' % ind)
            else:
                L.append('%s  <transition%s/>' % (ind, at))
        for x in getattr(s, 'extra_xml', ()): L.append(ind + '  ' + x)      # verbatim child elements (<invoke> in C13)
        for c in s.children: w(c, ind + '  ')
        L.append('%s</%s>' % (ind, s.kind))
    w(ch.root, '')
    return '\n'.join(L) + '\n'


def chart_hash(ch):
    return hashlib.md5(render(ch, 'lua').encode()).hexdigest()[:16]


# ----------------------------------------------------------------------------- structural definitions (Rec. 3.13 / App. D), static
def static_eff_targets(ch, targets, seen=None):
    """Effective targets when no history value is recorded (default history transitions followed)."""
    out = []
    seen = seen or set()
    for tid in targets:
        s = ch.by_id[tid]
        if is_history(s):
            if s.id in seen: continue
            seen.add(s.id)
            for x in static_eff_targets(ch, s.trans[0].targets, seen):
                if x not in out: out.append(x)
        elif s not in out:
            out.append(s)
    return out


def lcca(ch, sl):
    for anc in proper_ancestors(sl[0]):
        if (is_compound(anc) or anc.kind == 'scxml') and all(is_descendant(s, anc) for s in sl[1:]):
            return anc
    return ch.root


def legal_target_set(ch, ids):
    """Can the states (or histories' parents) be active together?  pairwise: ancestor related or LCA is parallel."""
    sts = [ch.by_id[i] for i in ids]
    sts = [s.parent if is_history(s) else s for s in sts]
    for a, b in itertools.combinations(sts, 2):
        if a is b or is_descendant(a, b) or is_descendant(b, a):
            continue
        anc = a.parent
        while anc is not None and not is_descendant(b, anc): anc = anc.parent
        if anc is None or anc.kind != 'parallel': return False
    return True


def legal_configurations(ch):
    """All legal configurations (sets of state ids incl. root)."""
    def confs(s):
        if is_atomic(s): return [frozenset([s.id])]
        if is_parallel(s):
            res = [frozenset([s.id])]
            for c in s.states():
                res = [a | b for a in res for b in confs(c)]
            return res
        res = []
        for c in s.states():
            res += [frozenset([s.id]) | x for x in confs(c)]
        return res
    return confs(ch.root)


def is_legal_configuration(ch, conf):
    """Rec. 3.11 predicate on a set of state ids (root included). Returns None or a reason string."""
    ids = set(conf)
    for i in ids:
        if i not in ch.by_id: return 'unknown state %s' % i
        s = ch.by_id[i]
        if s.kind == 'history': return 'pseudo state %s active' % i
        if s.parent is not None and s.parent.id not in ids: return 'parent of %s inactive' % i
    if ch.root.id not in ids: return 'root inactive'
    atom = False
    for i in ids:
        s = ch.by_id[i]
        if is_atomic(s): atom = True
        elif is_parallel(s):
            for c in s.states():
                if c.id not in ids: return 'parallel %s: child %s inactive' % (i, c.id)
        else:
            n = sum(1 for c in s.states() if c.id in ids)
            if n != 1: return 'compound %s has %d active children' % (i, n)
    if not atom: return 'no atomic state active'
    return None


# ----------------------------------------------------------------------------- random generator
EVENTS = ['e1', 'e2', 'e3', 'e1.a', 'zz']


class Gen:
    def __init__(g, rng, nstates=8, data=True, late=None, allow=None, avoid=(), errors=True, dataexpr=True, orcond=True):
        g.rng = rng; g.nstates = nstates; g.data = data
        g.late = late if late is not None else (data and rng.random() < 0.2)
        g.avoid = set(avoid)      # feature triggers to avoid (known findings)
        g.errors = errors; g.dataexpr = dataexpr; g.orcond = orcond
        g.lab = 0

    def L(g, prefix):
        g.lab += 1; return '%s%d' % (prefix, g.lab)

    def chart(g):
        rng = g.rng
        cnt = [0]

        def nid(p='s'):
            cnt[0] += 1; return '%s%d' % (p, cnt[0])
        root = St('root', 'scxml')
        allst = [root]
        budget = [rng.randint(2, g.nstates)]

        def grow(p, depth):
            nch = rng.randint(1, 3) if p.kind != 'parallel' else rng.randint(2, 3)
            for i in range(nch):
                if budget[0] <= 0 and not (p.kind == 'parallel' and i < 2) and p.states(): break
                budget[0] -= 1
                r = rng.random()
                if depth >= 3: kind = 'state' if (r < 0.85 or p.kind == 'parallel') else 'final'
                elif r < 0.55: kind = 'state'
                elif r < 0.75: kind = 'parallel'
                elif r < 0.87 and p.kind != 'parallel': kind = 'final'
                else: kind = 'state'
                s = St(nid(), kind, p); p.children.append(s); allst.append(s)
                if kind == 'parallel' or (kind == 'state' and depth < 3 and rng.random() < 0.45 and budget[0] > 0):
                    grow(s, depth + 1)
            if (p.kind == 'state' and p.states() and rng.random() < 0.4) or (p.kind == 'parallel' and rng.random() < 0.25):
                h = St(nid('h'), 'history', p, rng.choice(['shallow', 'deep']))
                p.children.insert(rng.randint(0, len(p.children)), h); allst.append(h)
        grow(root, 0)
        if all(s.kind == 'final' for s in root.states()):
            s = St(nid(), 'state', root); root.children.insert(0, s); allst.append(s)
        # a compound must have at least one non-final child to be interesting; ensure compounds have a state child
        ch = Chart(root)
        proper = ch.proper()
        hists = [s for s in ch.doc if s.kind == 'history']
        vars_ = {'x': 0, 'y': 1, 'b': 0, 'c': 0} if g.data else {}
        if g.data and g.dataexpr and rng.random() < 0.3:
            # initialisers run in document order: yy is computed from x and y declared before it
            vars_['x'] = rng.randint(0, 2)
            vars_['yy'] = ('add', ('var', 'x'), ('add', ('var', 'y'), ('const', rng.randint(1, 3))))
        g.vars = vars_

        def legal_targets(k, src):
            pool = proper + hists
            first = rng.choice(pool)
            res = [first]
            for _ in range(k - 1):
                cands = [s for s in proper if s not in res and legal_target_set(ch, [q.id for q in res] + [s.id])
                         and not any(is_descendant(s, q) or is_descendant(q, s) for q in res if not is_history(q))
                         and not any(is_history(q) and (s is q.parent or is_descendant(s, q.parent) or is_descendant(q.parent, s)) for q in res)]
                if not cands: break
                res.append(rng.choice(cands))
            return [s.id for s in res]
        for s in ch.doc:
            if s.kind == 'history':
                sibs = s.parent.states()
                if s.htype == 'deep' and rng.random() < 0.5:
                    desc = [q for q in proper if is_descendant(q, s.parent)]
                    tgt = rng.choice(desc)
                else:
                    tgt = rng.choice(sibs)
                s.trans.append(Tr(s, None, None, [tgt.id], False, g.racts('H', proper) if rng.random() < 0.5 else []))
                continue
            if s.kind != 'scxml':
                if rng.random() < 0.7: s.onentry.append(g.racts('N', proper))
                if rng.random() < 0.15: s.onentry.append(g.racts('N', proper))
                if rng.random() < 0.6: s.onexit.append(g.racts('X', proper))
                if rng.random() < 0.15: s.onexit.append(g.racts('X', proper))
            if s.kind in ('state', 'scxml') and s.states():
                r = rng.random()
                if r < 0.3: s.initial_attr = [rng.choice(s.states()).id]
                elif r < 0.45 and 'initial-deep' not in g.avoid:
                    d = [q for q in proper if is_descendant(q, s)]
                    s.initial_attr = [rng.choice(d).id]
                elif r < 0.6 and s.kind != 'scxml':
                    if rng.random() < 0.25 and 'initial-deep' not in g.avoid:
                        # <initial> may target any descendant: the states in between are entered as its ancestors
                        s.initial_elem = ([rng.choice([q for q in proper if is_descendant(q, s)]).id], g.racts('I', proper))
                    else:
                        s.initial_elem = ([rng.choice(s.states()).id], g.racts('I', proper))
                elif r < 0.68 and 'initial-multi' not in g.avoid:
                    # several (deep) initial targets in different regions of a parallel below s
                    d = [q for q in proper if is_descendant(q, s)]
                    rng.shuffle(d)
                    for a in d:
                        more = [b for b in d if b is not a and not is_descendant(a, b) and not is_descendant(b, a) and legal_target_set(ch, [a.id, b.id])]
                        if more:
                            s.initial_attr = [a.id, rng.choice(more).id]; break
            if s.kind in ('state', 'parallel'):
                for _ in range(rng.choice([0, 1, 1, 2, 2, 3])):
                    r = rng.random()
                    events = None if r < 0.2 else rng.choice([['e1'], ['e2'], ['e3'], ['e1', 'e2'], ['i1'], ['i1.*'], ['*'], ['done.state.*'], ['e1']])
                    cond = g.rcond(proper) if rng.random() < (1.0 if events is None else 0.3) else None
                    guard_inc = False
                    if events is None and vars_ and rng.random() < 0.93:
                        cond = ('lt', ('var', 'c'), ('const', rng.randint(1, 3))); guard_inc = True
                    r2 = rng.random()
                    if r2 < 0.2 and 'targetless' not in g.avoid: targets = []
                    elif r2 < 0.85: targets = legal_targets(1, s)
                    else: targets = legal_targets(2, s)
                    if 'history-target' in g.avoid and any(ch.by_id[t].kind == 'history' for t in targets):
                        targets = [rng.choice(proper).id]
                    internal = rng.random() < 0.2
                    if internal and s.kind == 'state' and s.states() and rng.random() < 0.35 and 'multi-target' not in g.avoid:
                        # internal transition of a compound state with several targets, only the first of them below the source
                        below = [q for q in proper if is_descendant(q, s)]
                        first = rng.choice(below)
                        more = [q for q in proper if not is_descendant(q, s) and q is not s and not is_descendant(s, q) and legal_target_set(ch, [first.id, q.id])]
                        if more: targets = [first.id, rng.choice(more).id]
                    content = g.racts('T', proper) if rng.random() < 0.8 else []
                    if guard_inc: content = content + [('assign', 'c', ('add', ('var', 'c'), ('const', 1)))]
                    if not vars_ and (events is None or events[0] != 'e1') and targets:
                        # no data to bound loops with: transitions on eventless/internal triggers only move forward in document order
                        fw = [q for q in proper if q.order > s.order and not is_descendant(q, s) and not is_descendant(s, q)]
                        if not fw: continue
                        targets = [rng.choice(fw).id]
                    s.trans.append(Tr(s, events, cond, targets, internal, content))
        binding = 'early'
        if g.late and vars_:
            binding = 'late'
            # late binding: z declared in one non-root state; used only in that state's own onentry (after init)
            cands = [s for s in proper if s.kind != 'final']
            if cands:
                s = rng.choice(cands)
                s.data.append(('z', rng.randint(2, 9)))
                s.onentry.insert(0, [('log', g.L('Z'), ('var', 'z')), ('assign', 'z', ('add', ('var', 'z'), ('const', 1)))])
        ch = Chart(root, binding, vars_)
        return ch

    def rexpr(g):
        rng = g.rng
        if not g.vars: return None
        return rng.choice([('var', 'x'), ('var', 'y'), ('add', ('var', 'x'), ('const', 1)), ('const', rng.randint(0, 3)),
                           ('sub', ('const', 5), ('const', 3)), ('sub', ('var', 'y'), ('const', 2))] + ([('var', 'yy')] * 2 if 'yy' in g.vars else []))

    def rcond(g, proper):
        rng = g.rng
        r = rng.random()
        cands = [s.id for s in proper]
        if not g.vars or r < 0.4: c = ('in', rng.choice(cands))
        elif r < 0.7: c = ('eq', ('var', rng.choice(['x', 'y'])), ('const', rng.randint(0, 2)))
        else: c = ('lt', ('var', rng.choice(['x', 'y'])), ('const', rng.randint(1, 3)))
        if rng.random() < 0.25 and g.vars: c = ('not', c)
        if rng.random() < 0.12 and g.vars and g.orcond:
            c = ('or', c, ('eq', ('var', rng.choice(['x', 'y'])), ('const', rng.randint(0, 2))))
        return c

    def budget(g, act):
        """Event-producing actions are bounded by construction: guarded by a budget counter `b` (when there is data)."""
        if not g.vars: return act
        return ('if', [(('lt', ('var', 'b'), ('const', 5)), [act, ('assign', 'b', ('add', ('var', 'b'), ('const', 1)))])], None)

    def racts(g, prefix, proper, n=None):
        rng = g.rng
        acts = [('log', g.L(prefix), g.rexpr())]
        for _ in range(rng.randint(0, 2) if n is None else n):
            r = rng.random()
            if r < 0.22: acts.append(g.budget(('raise', rng.choice(['e2', 'i1', 'i1', 'i1.a']))))
            elif r < 0.5 and g.vars:
                acts.append(('assign', rng.choice(['x', 'y']), rng.choice([('add', ('var', 'x'), ('const', 1)), ('const', rng.randint(0, 2)), ('var', 'y'),
                                                                          ('sub', ('var', 'x'), ('const', 1))])))
            elif r < 0.53 and g.vars and g.errors:
                # run-time error: assignment to an undeclared location; the rest of this block must be skipped (error.execution is raised)
                acts.append(('assign', 'undecl.f', ('const', 1))); acts.append(('log', g.L(prefix), g.rexpr()))
            elif r < 0.55: acts.append(g.budget(('send', rng.choice(['e3', 'e4']))))
            elif r < 0.58: acts.append(g.budget(('sendint', rng.choice(['i1', 'i2']))))
            elif r < 0.72:
                clauses = [(g.rcond(proper), [('log', g.L(prefix), g.rexpr())])]
                if rng.random() < 0.3: clauses.append((g.rcond(proper), [('log', g.L(prefix), g.rexpr())]))
                acts.append(('if', clauses, [('log', g.L(prefix), g.rexpr())] if rng.random() < 0.5 else None))
            else: acts.append(('log', g.L(prefix), g.rexpr()))
        return acts


def gen_done_chart(seed, logexpr=None):
    """Documents about done.state: a parallel whose regions reach their final states in the order the history dictates; regions may hold
    nested parallels / compounds (active or not when the region finishes) and nested finals."""
    rng = random.Random(seed)
    cnt = [0]

    def nid(p):
        cnt[0] += 1; return '%s%d' % (p, cnt[0])
    root = St('root', 'scxml')
    par = St('P', 'parallel', root); root.children.append(par)
    evs = ['e1', 'e2', 'e3']
    lab = [0]

    def log(prefix):
        lab[0] += 1; return [('log', '%s%d' % (prefix, lab[0]), logexpr)]

    def region(parent, depth):
        r = St(nid('r'), 'state', parent); parent.children.append(r)
        a = St(nid('a'), 'state', r); r.children.append(a)
        kind = rng.choice(['none', 'none', 'parallel', 'compound']) if depth < 2 else 'none'
        nested = None
        if kind == 'parallel':
            nested = St(nid('np'), 'parallel', r); r.children.append(nested)
            for _ in range(2): region(nested, depth + 1)
            nested.trans.append(Tr(nested, ['done.state.' + nested.id], None, [], False, log('D')))
        elif kind == 'compound':
            nested = St(nid('nc'), 'state', r); r.children.append(nested)
            x = St(nid('x'), 'state', nested); nested.children.append(x)
            nf = St(nid('nf'), 'final', nested); nested.children.append(nf)
            x.trans.append(Tr(x, [rng.choice(evs)], None, [nf.id], False, log('T')))
            nested.trans.append(Tr(nested, ['done.state.' + nested.id], None, [], False, log('D')))
        f = St(nid('f'), 'final', r); r.children.append(f)
        a.trans.append(Tr(a, [rng.choice(evs)], None, [f.id], False, log('T')))
        if nested is not None:
            if rng.random() < 0.6: a.trans.append(Tr(a, [rng.choice(evs)], None, [nested.id], False, log('T')))
            nested.trans.append(Tr(nested, [rng.choice(evs)], None, [f.id], False, log('T')))
        r.onentry.append(log('N')); f.onentry.append(log('N'))
        r.trans.append(Tr(r, ['done.state.' + r.id], None, [], False, log('D')))
        return r
    for _ in range(rng.randint(2, 3)): region(par, 0)
    if rng.random() < 0.4:
        # a history pseudo-state among the regions: it is no region and must not count for done.state.P
        h = St(nid('h'), 'history', par, rng.choice(['shallow', 'deep'])); par.children.insert(rng.randint(0, len(par.children)), h)
        h.trans.append(Tr(h, None, None, [par.states()[0].id], False, []))
    ok = St('pass', 'state', root); root.children.append(ok)
    ok.onentry.append(log('N'))
    par.trans.append(Tr(par, ['done.state.P'], None, ['pass'], False, log('D')))
    ch = Chart(root)
    hist = [rng.choice(evs) for _ in range(rng.randint(3, 7))]
    return ch, hist


def gen_hist_chart(seed, logexpr=None):
    """Documents about history: one compound state S with a (deep or shallow) history and two compound children with nested states;
    the history walks the nested states, leaves S and comes back through the history several times, so that the store is re-recorded
    with a different nested configuration each time."""
    rng = random.Random(seed)
    lab = [0]

    def log(prefix):
        lab[0] += 1; return [('log', '%s%d' % (prefix, lab[0]), logexpr)]
    root = St('root', 'scxml')
    S = St('S', 'state', root); root.children.append(S)
    h = St('h', 'history', S, rng.choice(['deep', 'deep', 'shallow'])); S.children.append(h)
    leaves = []
    for name in ('A', 'B'):
        c = St(name, 'state', S); S.children.append(c)
        c.onentry.append(log('N'))
        for i in (1, 2, 3)[:rng.randint(2, 3)]:
            l = St('%s%d' % (name.lower(), i), 'state', c); c.children.append(l); leaves.append(l)
            l.onentry.append(log('N'))
    h.trans.append(Tr(h, None, None, [rng.choice(['A', 'B'] + [l.id for l in leaves]) if h.htype == 'deep' else rng.choice(['A', 'B'])], False, log('H')))
    O = St('O', 'state', root); root.children.append(O)
    O.onentry.append(log('N'))
    for l in leaves:
        l.trans.append(Tr(l, ['e1'], None, [rng.choice([q.id for q in leaves if q is not l])], False, log('T')))
    S.trans.append(Tr(S, ['e2'], None, ['O'], False, log('T')))
    O.trans.append(Tr(O, ['e3'], None, ['h'], False, log('T')))
    O.trans.append(Tr(O, ['e2'], None, [rng.choice(['S', 'A', 'B'])], False, log('T')))
    ch = Chart(root)
    # walk, leave, come back through the history, walk on, leave, come back
    hist = []
    for _ in range(2):
        hist += ['e1'] * rng.randint(0, 2) + ['e2', rng.choice(['e3', 'e3', 'e2'])]
    hist = hist[:6] + (['e1'] if rng.random() < 0.5 else [])
    return ch, hist


def gen_conflict_chart(seed, logexpr=None):
    """Documents about transition selection in parallel regions: several regions (some with a single child, some nested) whose states,
    regions and the parallel itself carry transitions for the same events with domains of every size (self loops, siblings, the other
    region, the parallel, its parent, outside, targetless, internal); the parallel is sometimes the last thing in its parent."""
    rng = random.Random(seed)
    lab = [0]

    def log(prefix):
        lab[0] += 1; return [('log', '%s%d' % (prefix, lab[0]), logexpr)]
    root = St('root', 'scxml')
    on = St('on', 'state', root); root.children.append(on)
    if rng.random() < 0.5:
        off = St('off', 'state', on); on.children.append(off)
    p = St('p', 'parallel', on); on.children.append(p)
    leaves = []; regions = []
    for i in range(rng.randint(2, 3)):
        r = St('r%d' % i, 'state', p); p.children.append(r); regions.append(r)
        for j in range(rng.choice([1, 1, 2])):
            c = St('c%d%d' % (i, j), 'state', r); r.children.append(c); leaves.append(c)
            if rng.random() < 0.2:
                g = St('g%d%d' % (i, j), 'state', c); c.children.append(g); leaves.append(g)
    if rng.random() < 0.4:
        aft = St('aft', 'state', on); on.children.append(aft)
    other = St('other', 'state', root); root.children.append(other)
    on.initial_attr = ['p']
    ch = Chart(root)
    pool = [q.id for q in ch.proper()]
    for src in leaves + regions + [p, on, other]:
        src.onentry.append(log('N')); src.onexit.append(log('X'))
        for _ in range(rng.choice([0, 1, 1, 2]) if src in leaves else rng.choice([0, 0, 1])):
            ev = rng.choice(['e1', 'e1', 'e1', 'e2'])
            r = rng.random()
            if r < 0.15: tg = []
            elif r < 0.3: tg = [src.id]
            else: tg = [rng.choice(pool)]
            internal = bool(tg) and src.states() and is_descendant(ch.by_id[tg[0]], src) and rng.random() < 0.5
            src.trans.append(Tr(src, [ev], None, tg, internal, log('T')))
    ch.reindex()
    hist = [rng.choice(['e1', 'e1', 'e2']) for _ in range(rng.randint(1, 5))]
    return ch, hist


def gen_multiinit_chart(seed, logexpr=None):
    """Documents about target sets with several members at different depths: a state whose initial attribute (or an <initial> element, or a
    transition from outside) names states in several regions of a parallel, each anywhere below its region - direct children, grandchildren,
    non-default branches -, regions left out complete by default."""
    rng = random.Random(seed)
    lab = [0]

    def log(prefix):
        lab[0] += 1; return [('log', '%s%d' % (prefix, lab[0]), logexpr)]
    root = St('root', 'scxml')
    o = St('o', 'state', root); root.children.append(o)
    s = St('s', 'state', root); root.children.append(s)
    if rng.random() < 0.3:
        pre = St('spre', 'state', s); s.children.append(pre)
    P = St('P', 'parallel', s); s.children.append(P)
    regions = []
    cnt = [0]

    def sub(parent, depth):
        kids = []
        for k in range(2):
            cnt[0] += 1
            c = St('%s%d' % (parent.id.lower(), k + 1), 'state', parent); parent.children.append(c); kids.append(c)
            c.onentry.append(log('N'))
            if depth < 2 and rng.random() < 0.5: sub(c, depth + 1)
        return kids
    for name in ('A', 'B', 'C')[:rng.randint(2, 3)]:
        r = St(name, 'state', P); P.children.append(r); regions.append(r); r.onentry.append(log('N'))
        sub(r, 0)
    ch = Chart(root)

    def pick(r):
        d = [q for q in ch.proper() if is_descendant(q, r)]
        return rng.choice(d + [q for q in d if q.parent is not r] * 2)      # deeper ones more often
    chosen = rng.sample(regions, rng.randint(2, len(regions)))
    if rng.random() < 0.5: chosen.sort(key=lambda q: q.order)
    tset = [pick(r).id for r in chosen]
    how = rng.choice(['attr', 'elem', 'trans', 'scxml'])
    if how == 'attr': s.initial_attr = list(tset)
    elif how == 'elem': s.initial_elem = (list(tset), log('I'))
    elif how == 'scxml': root.initial_attr = list(tset)
    o.trans.append(Tr(o, ['e1'], None, list(tset) if how == 'trans' or rng.random() < 0.5 else ['s'], False, log('T')))
    s.trans.append(Tr(s, ['e2'], None, ['o'], False, log('T')))
    if how != 'scxml' and rng.random() < 0.5: root.initial_attr = ['s']
    ch.reindex()
    hist = [rng.choice(['e1', 'e2']) for _ in range(rng.randint(2, 4))]
    if 'e1' not in hist: hist[0] = 'e1'
    return ch, hist


def gen_late_chart(seed, logexpr=True):
    """Documents about late binding: states with local data that is counted up on every entry; the history enters and leaves them repeatedly."""
    rng = random.Random(seed)
    root = St('root', 'scxml')
    names = ['a', 'b', 'c'][:rng.randint(2, 3)]
    sts = []
    for i, n in enumerate(names):
        s = St(n, 'state', root); root.children.append(s); sts.append(s)
        if rng.random() < 0.8:
            v = 'k' + n
            s.data.append((v, rng.randint(0, 3)))
            s.onentry.append([('assign', v, ('add', ('var', v), ('const', 1))), ('log', 'L' + n, ('var', v))])
        else:
            s.onentry.append([('log', 'L' + n, ('const', i))])
    for i, s in enumerate(sts):
        s.trans.append(Tr(s, ['e1'], None, [sts[(i + 1) % len(sts)].id], False, []))
        if rng.random() < 0.6: s.trans.append(Tr(s, ['e2'], None, [rng.choice(sts).id], False, []))
    ch = Chart(root, 'late', {'x': 0, 'y': 1})
    hist = [rng.choice(['e1', 'e1', 'e2']) for _ in range(rng.randint(3, 7))]
    return ch, hist


def decorate(ch, rng, errors=True, evcond=False, params=True):
    """Second pass with its own random stream (the base charts stay what they were): content kinds and event names beyond the base
    generator - <foreach> over an integer array, <script> (lua), _event.name, nested <if>/<elseif>/<else>, transitions on error.* and
    done.state.<id> events."""
    proper = ch.proper()
    has_data = bool(ch.data)
    lab = [0]

    def L(p):
        lab[0] += 1; return 'R%s%d' % (p, lab[0])

    def rex():
        return rng.choice([('var', 'x'), ('var', 'y'), ('add', ('var', 'x'), ('const', 1))]) if has_data else None

    def rcond():
        r = rng.random()
        if not has_data or r < 0.3: return ('in', rng.choice(proper).id)
        if r < 0.65: return ('eq', ('var', rng.choice(['x', 'y'])), ('const', rng.randint(0, 2)))
        return ('lt', ('var', rng.choice(['x', 'y'])), ('const', rng.randint(1, 3)))
    blocks = []; evented = []
    for s in ch.doc:
        if s.kind == 'history':
            for t in s.trans:
                if t.content: blocks.append(t.content)
            continue
        blocks += s.onentry + s.onexit
        if s.initial_elem and s.initial_elem[1]: blocks.append(s.initial_elem[1])
        for t in s.trans:
            if t.content:
                blocks.append(t.content)
                if t.events: evented.append(t.content)

    def put(block, acts):
        i = rng.randint(0, len(block))
        block[i:i] = acts
    if has_data and blocks:
        if rng.random() < 0.45:
            ch.data['arr'] = ('list', [rng.randint(0, 4) for _ in range(rng.randint(1, 4))]); ch.data['it'] = 0; ch.data['ix'] = 0
            for _ in range(rng.randint(1, 2)):
                body = [('log', L('F'), ('var', 'it'))]
                r = rng.random()
                if r < 0.4: body.append(('assign', 'x', ('add', ('var', 'x'), ('var', 'it'))))
                elif r < 0.6: body.insert(0, ('if', [(('lt', ('var', 'it'), ('const', 2)), [('log', L('F'), ('var', 'x'))])], [('assign', 'y', ('var', 'it'))]))
                elif r < 0.7 and errors: body.append(('assign', 'undecl.f', ('const', 1)))       # fails in the first iteration: foreach and block are aborted
                put(rng.choice(blocks), [('foreach', 'arr', 'it', 'ix' if rng.random() < 0.5 else None, body)])
        for _ in range(rng.choice([0, 0, 1, 2])):
            put(rng.choice(blocks), [('script', rng.choice(['x', 'y']), rng.choice([('add', ('var', 'y'), ('const', 1)), ('sub', ('var', 'x'), ('const', 1)), ('const', 2)]))])
    for _ in range(rng.choice([0, 1, 1, 2]) if evented else 0):
        put(rng.choice(evented), [('logev', L('V'))])
    for _ in range(rng.choice([0, 0, 1]) if blocks else 0):
        inner = ('if', [(rcond(), [('log', L('I'), rex())]), (rcond(), [('log', L('I'), rex())])], [('log', L('I'), rex())] if rng.random() < 0.5 else None)
        outer = ('if', [(rcond(), [('log', L('I'), rex()), inner]), (rcond(), [('log', L('I'), rex())]), (rcond(), [inner, ('log', L('I'), rex())])],
                 [('log', L('I'), rex()), inner] if rng.random() < 0.6 else None)
        put(rng.choice(blocks), [outer])
    srcs = [s for s in proper if s.kind != 'final']
    comp = [s for s in proper if s.kind in ('state', 'parallel') and s.states()]
    for _ in range(rng.choice([0, 1, 1, 2]) if srcs else 0):
        s = rng.choice(srcs)
        evs = rng.choice([['error.execution'], ['error'], ['error.*'], ['error.execution', 'e2'], ['done.state.*'], ['done'],
                          ['done.state.' + (rng.choice(comp).id if comp else 's1')]])
        targets = [rng.choice(proper).id] if has_data and rng.random() < 0.5 else []
        content = [('log', L('E'), rex())] + ([('logev', L('V'))] if rng.random() < 0.5 else [])
        s.trans.insert(rng.randint(0, len(s.trans)), Tr(s, evs, None, targets, False, content))
    if has_data and params and blocks and srcs:
        # events that carry values: <send> with <param>s (several such elements per document), read by the transition they trigger
        nsend = rng.choice([0, 1, 2, 2, 3])
        for k in range(nsend):
            evn = 'ep%d' % (k % 2 + 1)
            vals = [('p1', rng.choice([('var', 'x'), ('add', ('var', 'y'), ('const', k + 1)), ('const', 7 + k)]))] + ([('p2', rng.choice([('var', 'y'), ('const', 3 + k)]))] if evn == 'ep1' else [])     # ep1 carries p1 and p2, ep2 only p1
            put(rng.choice(blocks), [('if', [(('lt', ('var', 'b'), ('const', 5)), [('sendp', evn, vals), ('assign', 'b', ('add', ('var', 'b'), ('const', 1)))])], None)])
            s = rng.choice(srcs)
            s.trans.insert(rng.randint(0, len(s.trans)), Tr(s, [evn], None, [], False, [('log', L('P'), ('evdata', n)) for n, _ in vals]))
    if evcond and has_data:
        # an eventless transition whose condition looks at _event: it becomes enabled by an event that itself triggers nothing (App. D: the
        # eventless transitions are examined again after every event, before anything else is dequeued). Forward targets only (no loops).
        for _ in range(rng.choice([0, 1, 1, 2])):
            s = rng.choice(srcs) if srcs else None
            if s is None: break
            fw = [q for q in proper if q.order > s.order and not is_descendant(q, s) and not is_descendant(s, q)]
            if not fw: continue
            s.trans.insert(rng.randint(0, len(s.trans)), Tr(s, None, ('evis', rng.choice(['i1', 'e2', 'i1.a', 'e3', 'zz', 'error.execution'])), [rng.choice(fw).id], False, [('log', L('C'), rex())]))
    ch.reindex()


def rename_states(ch, fn):
    """Give every proper state / history the id fn(old id); targets, initial attributes/elements and In() conditions follow."""
    m = dict((s.id, fn(s.id)) for s in ch.doc if s.kind != 'scxml')
    assert len(set(m.values())) == len(m)

    def ex(e):
        if e is None or not isinstance(e, tuple): return e
        if e[0] == 'in': return ('in', m.get(e[1], e[1]))
        if e[0] == 'list': return e
        return tuple(ex(x) if isinstance(x, tuple) else x for x in e)

    def acts(a):
        out = []
        for x in a:
            if x[0] == 'log': out.append(('log', x[1], ex(x[2])))
            elif x[0] in ('assign', 'script'): out.append((x[0], x[1], ex(x[2])))
            elif x[0] == 'if': out.append(('if', [(ex(c), acts(b)) for c, b in x[1]], acts(x[2]) if x[2] is not None else None))
            elif x[0] == 'foreach': out.append(x[:4] + (acts(x[4]),))
            else: out.append(x)
        return out
    for s in ch.doc:
        if s.kind != 'scxml': s.id = m[s.id]
        s.onentry = [acts(b) for b in s.onentry]; s.onexit = [acts(b) for b in s.onexit]
        if s.initial_attr: s.initial_attr = [m[i] for i in s.initial_attr]
        if s.initial_elem: s.initial_elem = ([m[i] for i in s.initial_elem[0]], acts(s.initial_elem[1]))
        for t in s.trans:
            t.targets = [m[i] for i in t.targets]; t.cond = ex(t.cond); t.content = acts(t.content)
    ch.reindex()
    return m


def substring_ids(ch):
    """state ids that are character prefixes / substrings of one another: s1 -> s1, s2 -> s11, s3 -> s111, ... (h likewise)"""
    def fn(i):
        k = int(i[1:]) if i[1:].isdigit() else None
        return i if k is None else i[0] + '1' * k
    return rename_states(ch, fn)


def long_event_names(ch, hist, tail=70):
    """Rename the events e1/e2/e3/i1 (first token; descriptors and sub-tokens keep working) to names that share a prefix longer than 64
    characters and differ only behind it. Returns the renamed history."""
    pre = 'ev' + 'x' * tail
    m = {'e1': pre + 'a', 'e2': pre + 'b', 'e3': pre + 'c', 'i1': pre + 'd', 'e4': pre + 'e', 'i2': pre + 'f'}

    def rn(name):
        head, dot, rest = name.partition('.')
        return m.get(head, head) + dot + rest

    def acts(a):
        out = []
        for x in a:
            if x[0] in ('raise', 'send', 'sendint'): out.append((x[0], rn(x[1])))
            elif x[0] == 'sendp': out.append(('sendp', rn(x[1]), x[2]))
            elif x[0] == 'if': out.append(('if', [(c, acts(b)) for c, b in x[1]], acts(x[2]) if x[2] is not None else None))
            elif x[0] == 'foreach': out.append(x[:4] + (acts(x[4]),))
            else: out.append(x)
        return out
    for s in ch.doc:
        s.onentry = [acts(b) for b in s.onentry]; s.onexit = [acts(b) for b in s.onexit]
        if s.initial_elem: s.initial_elem = (s.initial_elem[0], acts(s.initial_elem[1]))
        for t in s.trans:
            if t.events: t.events = [rn(e) for e in t.events]
            t.content = acts(t.content)
    return [rn(e) for e in hist]


def gen_chart(seed, rich=False, evcond=False, params=True, **kw):
    rng = random.Random(seed)
    ch = Gen(rng, **kw).chart()
    hist = [rng.choice(EVENTS) for _ in range(rng.randint(1, 6))]
    if rich: decorate(ch, random.Random(seed * 7919 + 13), errors=kw.get('errors', True), evcond=evcond, params=params)
    return ch, hist


# ----------------------------------------------------------------------------- enumerated family E
def family_E(max_states=3, max_trans=2, with_history=True):
    """Every document with <= max_states states below <scxml> over {state, parallel, final, shallow/deep history},
    every nesting, <= max_trans transitions from the palette, uniform logging handlers. Yields Chart objects."""
    kinds = ['state', 'parallel', 'final'] + (['hs', 'hd'] if with_history else [])

    def trees(n):
        """forests of exactly n nodes: list of (kind, children) in document order"""
        if n == 0:
            yield []
            return
        for first_size in range(1, n + 1):
            for k in kinds:
                for sub in (trees(first_size - 1) if k in ('state', 'parallel') else ([[]] if first_size == 1 else [])):
                    for rest in trees(n - first_size):
                        yield [(k, sub)] + rest

    def valid(forest, parent_kind):
        proper = [t for t in forest if t[0] in ('state', 'parallel', 'final')]
        hist = [t for t in forest if t[0] in ('hs', 'hd')]
        if parent_kind == 'scxml':
            if hist or not proper: return False
            if all(t[0] == 'final' for t in proper): return False
        elif parent_kind == 'parallel':
            if len(proper) < 1 or len(hist) > 1: return False
            if any(t[0] == 'final' for t in proper): return False
        elif parent_kind == 'state':
            if hist and not proper: return False
            if len(hist) > 1: return False
        for k, sub in forest:
            if k in ('state', 'parallel'):
                if k == 'parallel' and not sub: return False
                if sub and not valid(sub, k): return False
        return True

    for n in range(1, max_states + 1):
        for forest in trees(n):
            if not valid(forest, 'scxml'): continue
            # build chart skeleton
            def build():
                cnt = [0]
                root = St('root', 'scxml')

                def mk(forest, p):
                    for k, sub in forest:
                        cnt[0] += 1
                        if k in ('hs', 'hd'):
                            s = St('h%d' % cnt[0], 'history', p, 'shallow' if k == 'hs' else 'deep')
                        else:
                            s = St('s%d' % cnt[0], k, p)
                        p.children.append(s)
                        mk(sub, s)
                mk(forest, root)
                return Chart(root)
            skel = build()
            proper = [s for s in skel.proper()]
            sources = [s for s in proper if s.kind != 'final']
            # transition palette
            pal = []
            targets_opts = [[]] + [[s.id] for s in skel.doc if s.kind != 'scxml']
            pairs = [[a.id, b.id] for a, b in itertools.combinations(proper, 2)
                     if legal_target_set(skel, [a.id, b.id]) and not is_descendant(a, b) and not is_descendant(b, a)]
            targets_opts += pairs
            for src in sources:
                for ev in (['e1'], None):
                    for tg in targets_opts:
                        for internal in (False, True):
                            if internal and (not tg or not is_compound(src)): continue
                            if ev is None and (not tg or tg == [src.id] or any(is_descendant(src, skel.by_id[x]) or x == src.id for x in tg)):
                                continue   # eventless loops diverge; keep only eventless transitions that leave the source for good
                            pal.append((src.id, ev, tg, internal))
            hist_defaults = []
            hs = [s for s in skel.doc if s.kind == 'history']
            # each history gets a default transition to every legal child (shallow) / descendant (deep) -> enumerate
            def hist_opts(h):
                if h.htype == 'shallow': return [[c.id] for c in h.parent.states()]
                return [[c.id] for c in skel.proper() if is_descendant(c, h.parent)]
            hopts = [hist_opts(h) for h in hs]
            tsets = [()]
            for k in range(1, max_trans + 1):
                tsets += list(itertools.combinations(pal, k))
            for hsel in itertools.product(*hopts) if hs else [()]:
                for ts in tsets:
                    ch = build()
                    for h, tg in zip([s for s in ch.doc if s.kind == 'history'], hsel):
                        h.trans.append(Tr(h, None, None, list(tg), False, [('log', 'H_' + h.id, ('const', 0))]))
                    for s in ch.proper():
                        s.onentry.append([('log', 'N_' + s.id, ('const', 0))])
                        s.onexit.append([('log', 'X_' + s.id, ('const', 0))])
                    for i, (src, ev, tg, internal) in enumerate(ts):
                        s = ch.by_id[src]
                        s.trans.append(Tr(s, ev, None, list(tg), internal, [('log', 'T%d_%s' % (i, src), ('const', 0))]))
                    ch.reindex()
                    yield ch
