"""Executable reference model: SCXML 1.0 Recommendation, Appendix D (algorithm for SCXML interpretation),
transcribed over the abstract chart model of vf/chart.py. Written from the Recommendation, not from uSCXML.

Conventions (uSCXML-observable framing, see DESIGN.md 2.3): the initial configuration is entered in one step record
('#init'); an event that enables no transition yields a 'noop' step record; the final exit of all states on
completion is the '#completion' record.
"""
import collections
from vf.chart import (is_atomic, is_compound, is_parallel, is_history, is_descendant, proper_ancestors, ev_expr)
from vf.match import ref_match


class BlockAbort(Exception):
    pass


class Ref:
    MAXMICRO = 64
    MAXSTEPS = 200

    def __init__(r, ch, variants=()):
        # variants model known deviations of the implementation exactly (DESIGN.md 2.5):
        #  'static_domain' : transition domain from the static target list (a history target counts as itself)
        #  'static_select' : optimal transition set as the bit-matrix engines/transpilers compute it (post-fix order,
        #                    static conflict relation: exit intervals overlap or sources equal/ancestor-related)
        r.variants = set(variants)
        r.ch = ch
        r.conf = set()            # St objects
        r.hist = {}               # history id -> list of St
        r.iq = collections.deque(); r.eq = collections.deque()
        r.env = {}                # root data: early binding, or late binding at root entry (same instant: before any content runs)
        for k, v in sorted(ch.data.items()):      # initialisers in document order; one may refer to data declared before it
            r.env[k] = ev_expr(v, r.env, ()) if isinstance(v, tuple) else v
        r.initialized = set()
        r.running = True
        r.steps = []
        r.cur = None
        r.diverged = False
        r.raised = []             # every event put in the internal queue, in order (for C08/C13 style checks)
        r.payloads = collections.defaultdict(collections.deque)     # event name -> data of its pending instances

    def confids(r):
        return set(s.id for s in r.conf)

    # ------------------------------------------------------------------ executable content
    def run_block(r, acts):
        try:
            for a in acts:
                r.run1(a)
        except BlockAbort:
            pass

    def run1(r, a):
        k = a[0]
        if k == 'log':
            v = None if a[2] is None else ev_expr(a[2], r.env, r.confids())
            r.cur['acts'].append(('log', a[1], v))
        elif k == 'raise':
            r.iq.append(a[1]); r.raised.append(a[1])
        elif k == 'sendint':
            r.iq.append(a[1]); r.raised.append(a[1])
        elif k == 'send':
            r.eq.append(a[1])
        elif k == 'sendp':
            # params are evaluated when the <send> runs and travel with that instance of the event (same-named events stay in FIFO order)
            r.payloads[a[1]].append(dict((n, ev_expr(x, r.env, r.confids())) for n, x in a[2]))
            r.eq.append(a[1])
        elif k == 'assign':
            if a[1] not in r.env:
                r.iq.append('error.execution'); r.raised.append('error.execution'); raise BlockAbort()
            r.env[a[1]] = ev_expr(a[2], r.env, r.confids())
        elif k == 'if':
            for cond, body in a[1]:
                if ev_expr(cond, r.env, r.confids()):
                    for b in body: r.run1(b)
                    return
            if a[2] is not None:
                for b in a[2]: r.run1(b)
        elif k == 'foreach':        # ('foreach', array, item, index, body); arrays are not modified by generated content
            for i, v in enumerate(list(r.env[a[1]])):
                r.env[a[2]] = v
                if a[3]: r.env[a[3]] = i + 1
                for b in a[4]: r.run1(b)
        elif k == 'script':
            r.env[a[1]] = ev_expr(a[2], r.env, r.confids())
        elif k == 'logev':
            r.cur['acts'].append(('log', a[1], '"%s"' % r.env.get('_evname')))
        elif k == 'fail':           # ('fail', error event name, xml text): an element whose execution fails
            r.iq.append(a[1]); r.raised.append(a[1]); raise BlockAbort()
        elif k == 'xml':
            pass
        else:
            raise ValueError(a)

    def cond(r, t):
        if t.cond is None: return True
        return bool(ev_expr(t.cond, r.env, r.confids()))

    # ------------------------------------------------------------------ structure
    def eff_targets(r, targets):
        out = []
        for tid in targets:
            s = r.ch.by_id[tid]
            if is_history(s):
                if s.id in r.hist:
                    for x in r.hist[s.id]:
                        if x not in out: out.append(x)
                else:
                    for x in r.eff_targets(s.trans[0].targets):
                        if x not in out: out.append(x)
            elif s not in out:
                out.append(s)
        return out

    def domain(r, t):
        if 'static_domain' in r.variants:
            return r.static_domain(t)
        ts = r.eff_targets(t.targets)
        if not ts: return None
        if t.internal and is_compound(t.source) and all(is_descendant(s, t.source) for s in ts):
            return t.source
        return r.lcca([t.source] + ts)

    def static_domain(r, t):
        ts = [r.ch.by_id[x] for x in t.targets]
        if not ts: return None
        if t.internal and is_compound(t.source) and all(is_descendant(s, t.source) for s in ts):
            return t.source
        return r.lcca([t.source] + ts)

    def postfix_transitions(r):
        if not hasattr(r, '_pft'):
            out = []

            def walk(s):
                for c in s.children: walk(c)
                if not is_history(s): out.extend(s.trans)
            walk(r.ch.root)
            r._pft = out
        return r._pft

    def static_conflict(r, t1, t2):
        d1, d2 = r.static_domain(t1), r.static_domain(t2)
        if d1 is not None and d2 is not None and (d1 is d2 or is_descendant(d1, d2) or is_descendant(d2, d1)):
            return True
        a, b = t1.source, t2.source
        return a is b or is_descendant(a, b) or is_descendant(b, a)

    def select_static(r, ev):
        chosen = []
        for t in r.postfix_transitions():
            if t.source not in r.conf: continue
            if any(r.static_conflict(t, c) for c in chosen): continue
            if ev is None:
                ok = (not t.events) and r.cond(t)
            else:
                ok = bool(t.events) and ref_match(' '.join(t.events), ev) and r.cond(t)
            if ok: chosen.append(t)
        r.last_enabled = list(chosen)
        return chosen

    def lcca(r, sl):
        for anc in proper_ancestors(sl[0]):
            if (is_compound(anc) or anc.kind == 'scxml') and all(is_descendant(s, anc) for s in sl[1:]):
                return anc
        return r.ch.root

    def exit_set(r, ts):
        out = set()
        for t in ts:
            if t.targets:
                d = r.domain(t)
                if d is None: continue
                for s in r.conf:
                    if is_descendant(s, d): out.add(s)
        return out

    def select(r, ev):
        if 'static_select' in r.variants:
            return r.select_static(ev)
        en = []
        atoms = sorted([s for s in r.conf if is_atomic(s)], key=lambda s: s.order)
        for a in atoms:
            done = False
            for s in [a] + proper_ancestors(a):
                for t in s.trans:
                    if ev is None:
                        ok = (not t.events) and r.cond(t)
                    else:
                        ok = bool(t.events) and ref_match(' '.join(t.events), ev) and r.cond(t)
                    if ok:
                        if t not in en: en.append(t)
                        done = True; break
                if done: break
        r.last_enabled = list(en)
        # removeConflictingTransitions
        filt = []
        for t1 in en:
            pre = False; rem = []
            for t2 in filt:
                if r.exit_set([t1]) & r.exit_set([t2]):
                    if is_descendant(t1.source, t2.source): rem.append(t2)
                    else: pre = True; break
            if not pre:
                for t3 in rem: filt.remove(t3)
                filt.append(t1)
        return filt

    # ------------------------------------------------------------------ microstep
    def microstep(r, ts, evname):
        if evname: r.env['_evname'] = evname
        r.cur = {'ev': evname, 'acts': [], 'trans': [(t.source.id, t.idx) for t in ts], 'before': sorted(r.confids()),
                 'enabled': [(t.source.id, t.idx) for t in r.last_enabled]}
        ex = sorted(r.exit_set(ts), key=lambda s: -s.order)
        for s in ex:
            for h in s.histories():
                if h.htype == 'deep':
                    r.hist[h.id] = [x for x in sorted(r.conf, key=lambda q: q.order) if is_atomic(x) and is_descendant(x, s)]
                else:
                    r.hist[h.id] = [x for x in sorted(r.conf, key=lambda q: q.order) if x.parent is s]
        for s in ex:
            r.cur['acts'].append(('exit', s.id))
            for b in s.onexit: r.run_block(b)
            r.conf.discard(s)
        for t in ts:
            r.cur['acts'].append(('trans', t.source.id, t.idx))
            r.run_block(t.content)
        r.enter(ts)
        r.cur['conf'] = sorted(r.confids())
        r.cur['hist'] = dict((k, [x.id for x in v]) for k, v in r.hist.items())
        r.steps.append(r.cur)

    def enter(r, ts):
        to_enter = []; defentry = []; defhist = {}

        def add(s):
            if s not in to_enter: to_enter.append(s)

        def add_desc(s):
            if is_history(s):
                if s.id in r.hist:
                    for x in r.hist[s.id]: add_desc(x)
                    for x in r.hist[s.id]: add_anc(x, s.parent)
                else:
                    defhist[s.parent.id] = s.trans[0].content
                    for tid in s.trans[0].targets: add_desc(r.ch.by_id[tid])
                    for tid in s.trans[0].targets: add_anc(r.ch.by_id[tid], s.parent)
            else:
                add(s)
                if is_compound(s):
                    if s not in defentry: defentry.append(s)
                    tg, _ = r.initial_of(s)
                    for tid in tg: add_desc(r.ch.by_id[tid])
                    for tid in tg: add_anc(r.ch.by_id[tid], s)
                elif is_parallel(s):
                    for c in s.states():
                        if not any(is_descendant(x, c) for x in to_enter): add_desc(c)

        def add_anc(s, anc):
            for a in proper_ancestors(s, anc):
                add(a)
                if is_parallel(a):
                    for c in a.states():
                        if not any(is_descendant(x, c) for x in to_enter): add_desc(c)
        for t in ts:
            for tid in t.targets: add_desc(r.ch.by_id[tid])
            anc = r.domain(t)
            for s in r.eff_targets(t.targets): add_anc(s, anc)
        for s in sorted(to_enter, key=lambda q: q.order):
            if s in r.conf:
                r.cur.setdefault('anomaly', []).append('reference re-enters active state ' + s.id)
                continue
            r.conf.add(s)
            r.cur['acts'].append(('enter', s.id))
            if s.data and s.id not in r.initialized:
                r.initialized.add(s.id)
                for k, v in s.data: r.env[k] = v
            for b in s.onentry: r.run_block(b)
            if s in defentry:
                _, content = r.initial_of(s)
                if content: r.run_block(content)
            if s.id in defhist and defhist[s.id]: r.run_block(defhist[s.id])
            if s.kind == 'final':
                if s.parent.kind == 'scxml':
                    r.running = False
                else:
                    p = s.parent; g = p.parent
                    r.iq.append('done.state.' + p.id); r.raised.append('done.state.' + p.id)
                    # Rec. 3.7 / App. D: grandparent parallel completes when all its children are in final states;
                    # applied upwards through directly nested parallels (normative text of 3.4)
                    while g is not None and is_parallel(g) and all(r.in_final(c) for c in g.states()):
                        r.iq.append('done.state.' + g.id); r.raised.append('done.state.' + g.id)
                        g = g.parent

    def initial_of(r, s):
        if s.initial_attr: return (s.initial_attr, [])
        if s.initial_elem: return s.initial_elem
        return ([s.states()[0].id], [])

    def in_final(r, s):
        if is_compound(s): return any(c.kind == 'final' and c in r.conf for c in s.states())
        if is_parallel(s): return all(r.in_final(c) for c in s.states())
        return False

    # ------------------------------------------------------------------ one step from an arbitrary configuration (C18)
    def step_from(r, conf_ids, ev, condval):
        """conf_ids: legal configuration; ev: event name or None (spontaneous); condval: {(source id, index): bool}.
        Returns (taken transitions [(src, idx)], exited ids, entered ids, next configuration ids)."""
        r.conf = set(r.ch.by_id[i] for i in conf_ids); r.hist = {}; r.iq.clear(); r.eq.clear(); r.running = True
        r.cond = lambda t: (condval.get((t.source.id, t.idx), True) if t.cond is not None else True)
        ts = r.select(ev)
        r.cur = {'acts': []}
        if not ts:
            return [], [], [], sorted(conf_ids)
        ex = r.exit_set(ts)
        for s in ex: r.conf.discard(s)
        r.enter(ts)
        entered = [a[1] for a in r.cur['acts'] if a[0] == 'enter']
        return [(t.source.id, t.idx) for t in ts], sorted(s.id for s in ex), entered, sorted(r.confids())

    # ------------------------------------------------------------------ interpret a scripted history
    def start(r):
        root = r.ch.root
        r.cur = {'ev': '#init', 'acts': [], 'trans': [], 'before': []}
        r.conf.add(root); r.cur['acts'].append(('enter', root.id))

        class T0: pass
        t0 = T0(); t0.targets, t0.content = r.initial_of(root); t0.source = root; t0.internal = False
        save = r.domain
        r.domain = lambda t: root if t is t0 else save(t)
        r.enter([t0]); r.domain = save
        r.cur['conf'] = sorted(r.confids()); r.cur['hist'] = {}
        r.steps.append(r.cur)

    def macrostep_rest(r):
        """Run eventless transitions / internal events until stable. Returns False when diverged."""
        n = 0
        while r.running:
            ts = r.select(None); evn = None
            if not ts:
                if not r.iq: break
                evn = r.iq.popleft()
                r.env['_evname'] = evn
                ts = r.select(evn)
                if not ts:
                    r.steps.append({'ev': evn, 'acts': [], 'trans': [], 'conf': sorted(r.confids()), 'noop': True, 'q': 'i'})
                    n += 1
                    if n > r.MAXMICRO or len(r.steps) > r.MAXSTEPS:
                        r.diverged = True; return False
                    continue
            r.microstep(ts, evn)
            r.cur['q'] = 'i' if evn else 's'
            n += 1
            if n > r.MAXMICRO or len(r.steps) > r.MAXSTEPS:
                r.diverged = True; return False
        return True

    def external(r, evn):
        r.env['_evname'] = evn
        r.env['_evdata'] = r.payloads[evn].popleft() if r.payloads.get(evn) else {}
        ts = r.select(evn)
        if ts:
            r.microstep(ts, evn); r.cur['q'] = 'e'
        else:
            r.steps.append({'ev': evn, 'acts': [], 'trans': [], 'conf': sorted(r.confids()), 'noop': True, 'q': 'e'})

    def complete(r):
        r.cur = {'ev': '#completion', 'acts': [], 'trans': [], 'before': sorted(r.confids())}
        for s in sorted(r.conf, key=lambda q: -q.order):
            for b in s.onexit: r.run_block(b)
        r.cur['conf'] = sorted(r.confids())
        r.steps.append(r.cur)

    def interpret(r, history, pend=0, cancel_end=False):
        """External events are fed the way the driver feeds them: when the machine is idle (both queues empty),
        the next scripted event plus `pend` more are appended to the external queue."""
        r.start()
        hist = collections.deque(history)
        while r.running:
            if not r.macrostep_rest(): return
            if not r.running: break
            if len(r.steps) > r.MAXSTEPS:
                r.diverged = True; return
            if r.iq: continue
            if not r.eq:
                if not hist: break
                for _ in range(1 + pend):
                    if hist: r.eq.append(hist.popleft())
            evn = r.eq.popleft()
            r.external(evn)
        if r.running and cancel_end:
            r.running = False         # cancel() once the history is through: every active state runs its exit handlers (reverse document order)
        if not r.running:
            r.complete()
        r.finished = not r.running
