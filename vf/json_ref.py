"""Model of Data::fromJSON (Data.cpp) with explicit detection of the points where the C++ code leaves defined behaviour.

It is NOT the oracle of C15 (the oracle is "returns a value or throws, no sanitizer report, no signal, no hang"). It is used to
*classify* a crashing input into a narrow finding key: the key names the first undefined step the model reaches
(e.g. 'token-array-overread', 'data-stack-back-on-empty'). An input that crashes the real parser while the model sees no undefined
step gets the key 'unmodelled' and therefore is a VIOLATION, as is a modelled class with a different sanitizer signature.

jsmn_parse is a transcription of contrib/src/jsmn/jsmn.c (non-strict mode, no parent links) on a NUL terminated byte string.
"""
PRIM, OBJ, ARR, STR = 0, 1, 2, 3
NOMEM, INVAL, PART = -1, -2, -3
WS = b' \t\n\v\f\r'


class Tok:
    __slots__ = ('type', 'start', 'end', 'size')

    def __init__(self):
        self.type, self.start, self.end, self.size = 0, 0, 0, 0


def jsmn_parse(js, tokens, num_tokens):
    """js: bytes (no NUL inside; caller cuts at the first NUL); tokens: list of Tok (len >= num_tokens). Returns (rv, toknext)."""
    n = len(js)
    pos, toknext, toksuper = 0, 0, -1

    def ch(p):
        return js[p] if p < n else 0

    def alloc():
        nonlocal toknext
        if toknext >= num_tokens:
            return None
        t = tokens[toknext]
        toknext += 1
        t.start = t.end = -1
        t.size = 0
        return t

    while ch(pos) != 0:
        c = ch(pos)
        if c in b'{[':
            t = alloc()
            if t is None:
                return NOMEM, toknext
            if toksuper != -1:
                tokens[toksuper].size += 1
            t.type = OBJ if c == 0x7b else ARR
            t.start = pos
            toksuper = toknext - 1
        elif c in b'}]':
            ty = OBJ if c == 0x7d else ARR
            i = toknext - 1
            while i >= 0:
                t = tokens[i]
                if t.start != -1 and t.end == -1:
                    if t.type != ty:
                        return INVAL, toknext
                    toksuper = -1
                    t.end = pos + 1
                    break
                i -= 1
            if i == -1:
                return INVAL, toknext
            while i >= 0:
                t = tokens[i]
                if t.start != -1 and t.end == -1:
                    toksuper = i
                    break
                i -= 1
        elif c == 0x22:
            start = pos
            pos += 1
            ok = False
            while ch(pos) != 0:
                c2 = ch(pos)
                if c2 == 0x22:
                    t = alloc()
                    if t is None:
                        return NOMEM, toknext
                    t.type, t.start, t.end, t.size = STR, start + 1, pos, 0
                    ok = True
                    break
                if c2 == 0x5c:
                    pos += 1
                    if ch(pos) not in b'"/\\bfrntu':
                        return INVAL, toknext
                    if ch(pos) == 0:       # (b'...' never contains 0; kept for clarity: NUL after backslash -> default branch)
                        return INVAL, toknext
                pos += 1
            if not ok:
                return PART, toknext
            if toksuper != -1:
                tokens[toksuper].size += 1
        elif c in b'\t\r\n:, ':
            pass
        else:
            start = pos
            while ch(pos) != 0:
                c2 = ch(pos)
                if c2 in b':\t\r\n ,]}':
                    break
                if c2 < 32 or c2 >= 127:
                    return INVAL, toknext
                pos += 1
            t = alloc()
            if t is None:
                return NOMEM, toknext
            t.type, t.start, t.end, t.size = PRIM, start, pos, 0
            pos -= 1
            if toksuper != -1:
                tokens[toksuper].size += 1
        pos += 1
    for i in range(toknext - 1, -1, -1):
        if tokens[i].start != -1 and tokens[i].end == -1:
            return PART, toknext
    return 0, toknext


def trim(b):
    i, j = 0, len(b)
    while i < j and b[i] in WS:
        i += 1
    while j > i and b[j - 1] in WS:
        j -= 1
    return b[i:j]


def model(raw):
    """-> ('value'|'empty'|'throw'|'ub', detail). 'ub' detail is the class of the first undefined step."""
    trimmed = trim(raw)
    if not trimmed:
        return 'empty', 'blank'
    if trimmed[0] not in b'{[':
        return 'empty', 'no-container'
    cut = trimmed.split(b'\0', 1)[0]         # jsmn sees a C string
    frac = 16
    while True:
        frac //= 2
        nr = len(trimmed) // frac
        toks = [Tok() for _ in range(nr + 1)]
        rv, used = jsmn_parse(cut, toks, nr)
        if not (rv == NOMEM and frac > 1):
            break
    if rv != 0:
        return 'throw', {NOMEM: 'nomem', INVAL: 'inval', PART: 'part'}[rv]
    if toks[0].end != len(trimmed):
        return 'empty', 'trailing'
    alloc = nr + 1                            # entries in t[]

    def T(i):
        return toks[i] if i < alloc else None

    data_stack = 1                            # only the depth matters
    tok_stack = []
    cur = 0
    steps = 0
    while True:
        steps += 1
        t = T(cur)
        if t is None:
            return 'ub', 'token-array-overread'
        sentinel = cur >= used
        if t.type in (STR, PRIM):
            if data_stack == 0:
                return 'ub', 'data-stack-back-on-empty'     # dataStack.back()->atom = ...
            if sentinel:
                # the zeroed sentinel (type 0 == JSMN_PRIMITIVE) is consumed as a value: a key without value ended the document
                pass
            data_stack -= 1
            cur += 1
        else:
            tok_stack.append(t)
            cur += 1
        t = T(cur)
        if t is None:
            return 'ub', 'token-array-overread'
        if t.end == 0 or not tok_stack:
            break
        while t.end > tok_stack[-1].end:
            tok_stack.pop()
            if data_stack == 0:
                return 'ub', 'data-stack-pop-on-empty'      # dataStack.pop_back() in the "next token starts after current one" loop
            data_stack -= 1
            if not tok_stack:
                return 'ub', 'token-stack-underflow'
        if tok_stack[-1].type == OBJ and t.type in (PRIM, STR):
            if data_stack == 0:
                return 'ub', 'data-stack-back-on-empty'     # dataStack.back()->compound[key]
            data_stack += 1
            cur += 1
        if tok_stack[-1].type == ARR:
            if data_stack == 0:
                return 'ub', 'data-stack-back-on-empty'     # dataStack.back()->array.push_back
            data_stack += 1
    return 'value', used
