"""Evaluator for the combinational equations emitted by ChartToVHDL (C18, C12): a boolean netlist interpreter.

Extracts every concurrent assignment `name <= expr;` between the markers '-- optimal transition set selection' and
'-- interface signals' (operators and/or/not, literals '0'/'1', parentheses, identifiers - the generator emits nothing
else there) and evaluates signals on demand for given inputs. A combinational loop is reported as an error.
"""
import re

TOK = re.compile(r"\s*(?:(\()|(\))|('0'|'1')|(and|or|not)\b|([A-Za-z_][A-Za-z0-9_]*))")


class ParseError(Exception):
    pass


def tokenize(s):
    pos = 0; out = []
    s = s.strip()
    while pos < len(s):
        m = TOK.match(s, pos)
        if not m or m.end() == pos:
            if s[pos:].strip() == '': break
            raise ParseError('cannot tokenize at %r' % s[pos:pos + 30])
        pos = m.end()
        if m.group(1): out.append('(')
        elif m.group(2): out.append(')')
        elif m.group(3): out.append(m.group(3))
        elif m.group(4): out.append(m.group(4))
        else: out.append(('id', m.group(5)))
    return out


def parse_expr(toks):
    """VHDL: not binds tightest; and/or have equal precedence and must not be mixed without parentheses; we parse left to right."""
    pos = [0]

    def peek(): return toks[pos[0]] if pos[0] < len(toks) else None

    def nxt():
        t = peek(); pos[0] += 1; return t

    def factor():
        t = nxt()
        if t == '(':
            e = expr()
            if nxt() != ')': raise ParseError('missing )')
            return e
        if t == 'not': return ('not', factor())
        if t == "'0'": return ('c', False)
        if t == "'1'": return ('c', True)
        if isinstance(t, tuple): return ('v', t[1])
        raise ParseError('unexpected token %r' % (t,))

    def expr():
        e = factor()
        while peek() in ('and', 'or'):
            op = nxt(); r = factor(); e = (op, e, r)
        return e
    e = expr()
    if pos[0] != len(toks): raise ParseError('trailing tokens %r' % toks[pos[0]:pos[0] + 5])
    return e


class Netlist:
    def __init__(self, text):
        a = text.find('-- optimal transition set selection')
        b = text.find('-- interface signals')
        if a < 0 or b < 0: raise ParseError('markers not found')
        body = re.sub(r'--[^\n]*', '', text[a:b])
        self.eq = {}
        for stmt in body.split(';'):
            if '<=' not in stmt: continue
            name, _, rhs = stmt.partition('<=')
            name = name.strip()
            if name in self.eq: raise ParseError('signal %s assigned twice' % name)
            self.eq[name] = parse_expr(tokenize(rhs))
        self.inputs = set()

        def vars_(e):
            if e[0] == 'v': return {e[1]}
            if e[0] == 'c': return set()
            if e[0] == 'not': return vars_(e[1])
            return vars_(e[1]) | vars_(e[2])
        for e in self.eq.values(): self.inputs |= vars_(e)
        self.inputs -= set(self.eq)

    def evaluate(self, inputs):
        """Three-valued (Kleene) fixpoint: a signal on a structural cycle still gets a value when the cycle is cut by a
        controlling operand (x and '0'), as an event-driven VHDL simulator would settle; what stays unknown is a real loop."""
        val = dict((n, None) for n in self.eq)

        def ev(e):
            k = e[0]
            if k == 'c': return e[1]
            if k == 'v':
                n = e[1]
                if n in val: return val[n]
                if n in inputs: return bool(inputs[n])
                raise ParseError('undriven signal %s' % n)
            if k == 'not':
                x = ev(e[1]); return None if x is None else (not x)
            a, b = ev(e[1]), ev(e[2])
            if k == 'and':
                if a is False or b is False: return False
                if a is None or b is None: return None
                return True
            if a is True or b is True: return True
            if a is None or b is None: return None
            return False
        for _ in range(len(self.eq) + 2):
            changed = False
            for n, e in self.eq.items():
                if val[n] is None:
                    v = ev(e)
                    if v is not None: val[n] = v; changed = True
            if not changed: break
        unk = [n for n, v in val.items() if v is None]
        if unk: raise ParseError('combinational loop through %s' % unk[0])
        return val


def selftest():
    t = """-- optimal transition set selection
 a <= ( '1' and x and ( not y ) );
 b <= ( '0' or a or ( '1' and y ) );
 c <= not ( a or b ) ;
-- interface signals
"""
    n = Netlist(t)
    for x in (0, 1):
        for y in (0, 1):
            v = n.evaluate({'x': x, 'y': y})
            assert v['a'] == bool(x and not y) and v['b'] == bool((x and not y) or y) and v['c'] == (not (v['a'] or v['b']))
    return True
