"""Shared runner for C01/C02/C03/C13: generate a chart+history, run reference and implementation, compare."""
import os, json, random
from vf import common, chart as C, trace as T, refscxml, compare


def make_case(seed, dm, **genkw):
    data = dm != 'null'
    genkw.setdefault('rich', True)
    genkw.setdefault('evcond', dm == 'lua')      # conditions on _event.name are rendered for lua only
    ch, hist = C.gen_chart(seed, data=data, **genkw)
    return ch, hist


def ref_run(ch, hist, pend=0, cancel_end=False):
    ref = refscxml.Ref(ch)
    try:
        ref.interpret(hist, pend, cancel_end)
    except RecursionError:
        ref.diverged = True
    return ref


def run_batch(binary, cases, env=None):
    """cases: list of dict(id, xml, engine, hist, flags). Returns {id: parsed}"""
    jobs = [(c['id'], T.job_text(c['id'], c['engine'], c['xml'], c['hist'], flags=c.get('flags', ()), snap=c.get('snap'))) for c in cases]
    raw = T.run_jobs(binary, jobs, env=env)
    out = {}
    for c in cases:
        r = raw.get(c['id'], {'lines': [], 'crash': 'no result', 'timeout': False})
        p = T.parse(r['lines'])
        p['crash'] = r['crash']; p['timeout'] = r['timeout']; p['lines'] = r['lines']; p['stderr'] = r.get('stderr')
        out[c['id']] = p
    return out


def compare_case(ch, hist, dm, engine, parsed, ref):
    """Returns (verdict, key, detail). verdict in ok|diverged|deviation|crash|timeout|thrown"""
    if ref.diverged:
        # the correct run does not come to rest within the reference's caps (livelock): the implementation must at least agree with the
        # reference as far as the reference got - an engine that leaves the loop (or never enters it) deviates
        if parsed['timeout'] or parsed['crash'] or parsed['thrown']:
            return ('diverged', None, None)
        rs = T.ref_steps(ref)[:-2]
        us = [s for s in parsed['steps'] if s.get('ev') != '#outside']
        n = min(len(rs), len(us)) if parsed.get('stepcap') else len(rs)
        d = compare.first_divergence(rs[:n], us[:n] if len(us) >= n else us, dm)
        if d is not None:
            return ('deviation', compare.classify(ch, d, dm, engine), dict(d, reference_livelocks=True))
        return ('diverged', None, None)
    if parsed['timeout']:
        return ('timeout', 'timeout', None)
    if parsed['crash']:
        return ('crash', 'crash:' + str(parsed['crash'])[:100], {'stderr': parsed.get('stderr')})
    if parsed['thrown']:
        return ('thrown', 'thrown:' + parsed['thrown'][:60], None)
    rs = T.ref_steps(ref)
    d = compare.first_divergence(rs, parsed['steps'], dm)
    if d is not None:
        key = compare.classify(ch, d, dm, engine)
        return ('deviation', key, d)
    # final data values
    if dm != 'null':
        for v in ('x', 'y'):
            if v in ref.env and v in parsed['vals']:
                got = parsed['vals'][v]
                if got not in (str(ref.env[v]), str(ref.env[v]) + '.0'):
                    return ('deviation', 'final-data-differs', {'var': v, 'ref': ref.env[v], 'impl': got})
    if parsed['final'] is not None and sorted(parsed['final']) != sorted(ref.confids()) and not getattr(ref, 'finished', False):
        return ('deviation', 'final-config-differs', {'ref': sorted(ref.confids()), 'impl': parsed['final']})
    return ('ok', None, None)
