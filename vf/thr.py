"""Running vthr (threaded stress / forced schedule driver) and parsing its records and the sanitizer output."""
import os, re, subprocess, collections, hashlib
from vf import common

TSAN_ENV = {'TSAN_OPTIONS': 'halt_on_error=0:second_deadlock_stack=1:history_size=4', 'USCXML_NOCACHE_FILES': '1'}


def run(flavour, mode, chart, timeout=120, **kw):
    binary = common.harness('vthr', flavour)
    args = [binary, mode, chart] + ['%s=%s' % (k, v) for k, v in kw.items()]
    env = dict(os.environ)
    env.update(common.ASAN_ENV if flavour == 'asan' else TSAN_ENV)
    try:
        p = subprocess.run(args, capture_output=True, text=True, timeout=timeout, env=env, errors='replace')
        return {'rc': p.returncode, 'out': p.stdout, 'err': p.stderr, 'timeout': False, 'args': args[1:]}
    except subprocess.TimeoutExpired as e:
        so = e.stdout.decode('utf-8', 'replace') if isinstance(e.stdout, bytes) else (e.stdout or '')
        se = e.stderr.decode('utf-8', 'replace') if isinstance(e.stderr, bytes) else (e.stderr or '')
        return {'rc': None, 'out': so, 'err': se, 'timeout': True, 'args': args[1:]}


def run_with_stacks(flavour, mode, chart, timeout=30, **kw):
    """like run(), but on a hang two gdb stack samples one second apart are taken before the process is killed (deadlock evidence)"""
    binary = common.harness('vthr', flavour)
    args = [binary, mode, chart] + ['%s=%s' % (k, v) for k, v in kw.items()]
    env = dict(os.environ); env.update(common.ASAN_ENV if flavour == 'asan' else TSAN_ENV)
    p = subprocess.Popen(args, stdout=subprocess.PIPE, stderr=subprocess.PIPE, env=env, text=True, errors='replace')
    try:
        so, se = p.communicate(timeout=timeout)
        return {'rc': p.returncode, 'out': so, 'err': se, 'timeout': False, 'args': args[1:]}
    except subprocess.TimeoutExpired:
        stacks = []
        import time
        for i in range(2):
            try:
                g = subprocess.run(['gdb', '-p', str(p.pid), '-batch', '-ex', 'thread apply all bt 12'], capture_output=True, text=True, timeout=60)
                stacks.append(g.stdout)
            except Exception as e:
                stacks.append('gdb failed: %s' % e)
            cpu = open('/proc/%d/stat' % p.pid).read().split()[13:15] if os.path.exists('/proc/%d/stat' % p.pid) else None
            stacks.append('cpu ticks: %s' % cpu)
            time.sleep(1)
        p.kill()
        so, se = p.communicate()
        return {'rc': None, 'out': so, 'err': se, 'timeout': True, 'stacks': stacks, 'args': args[1:]}


def records(out):
    """-> list of (seq, usec, thread, kind, args) in per-thread output order"""
    recs = []
    for ln in out.split('\n'):
        p = ln.split(' ', 4)
        if len(p) < 4 or not p[0].isdigit(): continue
        recs.append((int(p[0]), int(p[1]), p[2], p[3], p[4] if len(p) > 4 else ''))
    return recs


REPORT = re.compile(r'WARNING: ThreadSanitizer: ([\w -]+?) \(pid=\d+\)(.*?)(?=\n=+\n|\Z)', re.S)


def tsan_reports(err, anchors):
    """-> (attributed {signature: count}, unattributed {signature: count}); signature = kind + the innermost uscxml frames of the first two stacks"""
    att = collections.Counter(); un = collections.Counter()
    for m in REPORT.finditer(err or ''):
        kind, body = m.group(1).strip(), m.group(2)
        stacks = re.split(r'\n\s*\n', body)
        fr = []
        for st in stacks[:3]:
            fs = re.findall(r'#\d+ (\S+).*?(%s/src/uscxml/\S+?):\d+' % re.escape(common.REPO), st)
            fs = [(f, os.path.basename(p)) for f, p in fs]
            if fs: fr.append(fs[0])
        sig = kind + ' | ' + ' <-> '.join('%s@%s' % (f.split('(')[0], p) for f, p in fr[:2])
        files = set(p for f, p in fr)
        allfiles = set(os.path.basename(x) for x in re.findall(r'%s/src/uscxml/\S+?(?=:\d)' % re.escape(common.REPO), body))
        if allfiles & set(anchors): att[sig] += 1
        else: un[sig] += 1
    return att, un


def signatures(recs, start_kinds, width=8):
    """interleaving signatures: for every record of a kind in start_kinds, the (thread role, site) sequence of the next `width` hook hits in global sequence order"""
    recs = sorted(recs, key=lambda r: r[0])
    role = lambda t: re.sub(r'\d+', '', t)
    hooks = [(r[0], role(r[2]), r[4]) for r in recs if r[3] == 'H']
    sigs = set()
    import bisect
    seqs = [h[0] for h in hooks]
    for r in recs:
        if r[3] in start_kinds:
            i = bisect.bisect_left(seqs, r[0])
            win = tuple((h[1], h[2]) for h in hooks[i:i + width])
            if win: sigs.add(hashlib.md5(repr(win).encode()).hexdigest()[:10])
    return sigs
