"""C13 oracle: push-down protocol checker over the recorded monitor callbacks of one interpreter session.

Input: the raw record lines of vdrv (one session; prefix already stripped). Output: list of (rule, line index, text).
"""
import re

OPEN = {'MB': 'MA', 'XB': 'XA', 'NB': 'NA', 'TB': 'TA', 'CB': 'CA', 'IB': 'IA', 'UB': 'UA', 'KB': 'KA'}
CLOSE = dict((v, k) for k, v in OPEN.items())
PSEUDO_T = re.compile(r'/(?:\w+:)?(initial|history)\[[^/]*\]/(?:\w+:)?transition\[\d+\]$')
OWNER = re.compile(r'^(.*)/(?:\w+:)?(onentry|onexit|transition|finalize)\[\d+\]((?:/[^/]+)+)$')


def state_xpath_id(xp):
    m = re.search(r'\[@id="([^"]+)"\]$', xp)
    return m.group(1) if m else None


def check(lines, ids_only=True):
    """Returns (violations, stats)."""
    V = []
    stack = []           # (kind, arg, lineno, extra dict)
    phase = 0            # inside micro-step: 0 exits, 1 transitions, 2 entries
    dirty = False        # activity since the last stable notice
    seen_any = False
    stats = {'callbacks': 0, 'microsteps': 0, 'content': 0, 'errors_in_content': 0, 'stable': 0, 'completion': 0, 'events': 0}
    micro = None         # dict(before, exits, enters)
    last_result = None
    finished = False
    for n, ln in enumerate(lines):
        if not ln or ln.startswith('['):
            continue
        k, _, arg = ln.partition(' ')
        if k in OPEN or k in CLOSE or k in ('E', 'S'):
            stats['callbacks'] += 1
            if finished:
                V.append(('callback-after-finished', n, ln))
        if k == 'R':
            last_result = int(arg)
            if stack:
                V.append(('step-returned-with-open-bracket', n, '%s open: %s' % (ln, [s[0] + ' ' + s[1] for s in stack])))
                stack = []
            if last_result == 1 and dirty:
                V.append(('idle-without-stable-notice', n, ln))
            if last_result == 6 and dirty:
                # cancel() arrived while a macrostep was under way: the macrostep still completes and must be announced before CANCELLED
                V.append(('cancelled-without-stable-notice-for-completed-macrostep', n, ln))
            if last_result == -1:
                finished = True
            continue
        if k == 'OP':
            if arg.split(' ')[0] in ('reset', 'create', 'deser'):
                stack = []; dirty = False; finished = False; micro = None
            continue
        if k in OPEN:
            top = stack[-1] if stack else None
            if k == 'MB':
                if stack: V.append(('microstep-inside-bracket', n, ln))
                phase = 0; stats['microsteps'] += 1
                micro = {'before': set(arg.split()), 'exits': [], 'enters': []}
                dirty = True
            elif k == 'XB':
                if not top or top[0] != 'MB': V.append(('exit-outside-microstep', n, ln))
                elif phase > 0: V.append(('exit-after-transition-or-entry', n, ln))
                if micro is not None: micro['exits'].append(arg)
            elif k == 'TB':
                pseudo = bool(PSEUDO_T.search(arg))
                if not top or top[0] != 'MB': V.append(('transition-outside-microstep', n, ln))
                elif pseudo:
                    if phase != 2: V.append(('initial/history-transition-outside-entry-phase', n, ln))
                else:
                    if phase > 1: V.append(('transition-after-entry', n, ln))
                    phase = max(phase, 1)
            elif k == 'NB':
                if not top or top[0] != 'MB': V.append(('entry-outside-microstep', n, ln))
                phase = 2
                if micro is not None: micro['enters'].append(arg)
            elif k == 'CB':
                stats['content'] += 1
                m = OWNER.match(arg)
                if not top:
                    if not (m and m.group(2) == 'finalize'): V.append(('content-outside-any-bracket', n, ln))
                elif top[0] == 'MB':
                    V.append(('content-directly-in-microstep', n, ln))
                elif top[0] == 'CB':
                    if not arg.startswith(top[1] + '/'): V.append(('nested-content-not-child-of-enclosing-element', n, ln))
                elif m:
                    blk = m.group(2)
                    want = {'XB': 'onexit', 'NB': 'onentry', 'TB': 'transition', 'KB': 'onexit'}.get(top[0])
                    if top[0] in ('IB', 'UB'):
                        V.append(('content-inside-invoke-bracket', n, ln))
                    elif blk != want and not (blk == 'finalize'):
                        V.append(('content-of-%s-inside-%s' % (blk, top[0]), n, ln))
                    elif top[0] in ('XB', 'NB'):
                        sid = state_xpath_id(m.group(1))
                        if sid is not None and not top[1].startswith('#') and sid != top[1]:
                            V.append(('content-of-other-state', n, '%s inside %s %s' % (arg, top[0], top[1])))
                    elif top[0] == 'TB':
                        if m.group(1) + '/' not in arg or not arg.startswith(top[1] + '/'):
                            V.append(('content-of-other-transition', n, '%s inside TB %s' % (arg, top[1])))
            elif k == 'KB':
                if stack: V.append(('completion-inside-bracket', n, ln))
                stats['completion'] += 1
            elif k in ('IB', 'UB'):
                # invocation happens at the end of a macrostep (outside every bracket); cancellation when the invoking state is exited
                # (App. D exitStates: after the state's onexit content, i.e. inside its exit bracket) or on completion
                if top and not (top[0] == 'KB' or (k == 'UB' and top[0] == 'XB')): V.append(('invoke-bracket-inside-%s' % top[0], n, ln))
            stack.append((k, arg, n, {'logs': 0}))
            continue
        if k in CLOSE:
            want = CLOSE[k]
            if not stack:
                V.append(('after-without-before', n, ln)); continue
            top = stack[-1]
            if top[0] != want or (top[1] != arg and k not in ('MA', 'KA')):
                V.append(('mismatched-after', n, '%s closes %s %s' % (ln, top[0], top[1])))
                # try to recover: pop until match
                while stack and not (stack[-1][0] == want and (stack[-1][1] == arg or k in ('MA', 'KA'))):
                    stack.pop()
                if stack: stack.pop()
                continue
            stack.pop()
            if k == 'CA' and re.search(r'/(?:\w+:)?log\[\d+\]$', arg):
                if top[3]['logs'] > 1: V.append(('log-element-logged-more-than-once', n, ln))
            if k == 'MA' and micro is not None:
                after = set(arg.split())
                exp = (micro['before'] - set(micro['exits'])) | set(micro['enters'])
                if after != exp:
                    V.append(('configuration-not-explained-by-reported-exits-and-entries', n,
                              'before=%s exits=%s enters=%s after=%s' % (sorted(micro['before']), micro['exits'], micro['enters'], sorted(after))))
                if len(set(micro['exits'])) != len(micro['exits']): V.append(('state-exit-reported-twice', n, str(micro['exits'])))
                if len(set(micro['enters'])) != len(micro['enters']): V.append(('state-entry-reported-twice', n, str(micro['enters'])))
                for x in micro['exits']:
                    if x not in micro['before']: V.append(('exit-of-inactive-state-reported', n, x))
                micro = None
            continue
        if k == 'E':
            stats['events'] += 1
            if stack: V.append(('event-processing-inside-bracket', n, ln))
            q = arg.rpartition(' ')[2]
            # (events sent with target #_internal are typed 'external' by uSCXML although they come from the internal queue;
            #  the generators only use names starting with 'i' for them)
            if q == 'e' and not arg.startswith('i') and dirty and seen_any:
                V.append(('external-event-without-stable-notice', n, ln))
            dirty = True; seen_any = True
        elif k == 'S':
            stats['stable'] += 1
            if stack: V.append(('stable-notice-inside-bracket', n, ln))
            if not dirty: V.append(('duplicate-stable-notice', n, ln))
            dirty = False; seen_any = True
        elif k == 'L':
            cb = [s for s in stack if s[0] == 'CB']
            if not cb or not re.search(r'/(?:\w+:)?log\[\d+\]$', cb[-1][1]):
                V.append(('log-line-outside-log-element-bracket', n, ln))
            else:
                cb[-1][3]['logs'] += 1
    if stack:
        V.append(('unclosed-bracket-at-end', len(lines), str([s[0] + ' ' + s[1] for s in stack])))
    return V, stats
