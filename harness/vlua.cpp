// vlua: C16 subject driver. Runs the real interpreter (datamodel="lua") in-process and exposes the ways a value can enter and
// leave the Lua datamodel. Never uses Interpreter::fromURL or the HTTP server; every send in the charts has delay 0 and targets the
// session itself, so no timer thread is involved and runs are deterministic.
//
// stdin: one case = a block of lines (wire format of vdata.h for Data/Event):
//   BEGIN <id> <xmlhex>           create the interpreter from the document (not yet stepped)
//   RUN                           step(0) until idle/finished (cap 300)            -> "R <final state> <steps>"
//   STEP                          a single step(0)                                 -> "R <state> 1"
//   EVAL <exprhex>                DataModel::evalAsData                            -> "V <data>" | "VT <name hex> <cause hex>" (thrown event) | "VX <what hex>"
//   ASSIGN <lochex> <data>        DataModel::assign(loc, data)                     -> "A ok" | "AT <name hex> <cause hex>" | "AX .."
//   INIT <lochex> <data>          DataModel::init(loc, data)                       -> "A ok" | ...
//   RECV <event>                  Interpreter::receive(event)                      -> "Q ok"
//   SESSION                                                                         -> "S <sessionid hex> <name hex>"
//   END                           destroy the interpreter                           -> "END <id>"   (flushed: the number of END lines identifies a dying case)
// Every event the interpreter takes from a queue is reported by a monitor as "E <event>" (its params/namelist/data are the send payload).
#include "vdata.h"
#include "uscxml/config.h"
#include "uscxml/Interpreter.h"
#include "uscxml/interpreter/InterpreterImpl.h"
#include "uscxml/interpreter/InterpreterMonitor.h"
#include "uscxml/interpreter/LoggingImpl.h"
#include "uscxml/plugins/DataModel.h"
#include <iostream>
#include <string>
#include <memory>

using namespace uscxml;

static std::ostream* out = &std::cout;

struct SilentLogger : public LoggerImpl {
	std::shared_ptr<LoggerImpl> create() override { return std::shared_ptr<LoggerImpl>(new SilentLogger()); }
	void log(LogSeverity, const Event&) override {}
	void log(LogSeverity, const Data&) override {}
	void log(LogSeverity, const std::string&) override {}
};

struct Mon : public InterpreterMonitor {
	void beforeProcessingEvent(const std::string&, const Event& ev) override {
		*out << "E ";
		vd::dumpEvent(*out, ev);
		*out << "\n";
	}
};

static std::string cause(const Event& e) {
	return e.data.hasKey("cause") ? e.data.at("cause").atom : std::string();
}

struct Session {
	Interpreter ip;
	Mon mon;
	bool stepped = false;
	DataModel& dm() {
		ensure();
		return ip.getImpl()->getActionLanguage()->dataModel;
	}
	void ensure() {
		// the datamodel exists after initialisation, which the first step performs
		if (!stepped) { ip.step(0); stepped = true; }
	}
};

int main(int argc, char** argv) {
	std::ios::sync_with_stdio(false);
	std::string line;
	std::unique_ptr<Session> s;
	std::string id;
	while (std::getline(std::cin, line)) {
		size_t sp = line.find(' ');
		std::string op = line.substr(0, sp), rest = sp == std::string::npos ? "" : line.substr(sp + 1);
		try {
			if (op == "BEGIN") {
				vd::Toks t(rest);
				id = t.next();
				std::string xml = vd::unhex(t.next());
				*out << "BEGIN " << id << "\n";
				s.reset(new Session());
				s->ip = Interpreter::fromXML(xml, "file:///verif/charts/x.scxml");
				ActionLanguage al;
				al.logger = Logger(std::shared_ptr<LoggerImpl>(new SilentLogger()));
				s->ip.setActionLanguage(al);
				s->ip.addMonitor(&s->mon);
			} else if (op == "END") {
				s.reset();
				*out << "END " << id << "\n";
				out->flush();
			} else if (!s) {
				*out << "NOSESSION\n";
			} else if (op == "RUN" || op == "STEP") {
				int n = 0;
				InterpreterState st = USCXML_UNDEF;
				int cap = (op == "STEP" ? 1 : 300);
				while (n < cap) {
					st = s->ip.step(0);
					s->stepped = true;
					n++;
					if (st == USCXML_IDLE || st == USCXML_FINISHED) break;
				}
				*out << "R " << (int)st << " " << n << "\n";
			} else if (op == "EVAL") {
				std::string expr = vd::unhex(rest);
				try {
					Data d = s->dm().evalAsData(expr);
					*out << "V ";
					vd::dumpData(*out, d);
					*out << "\n";
				} catch (Event e) {
					*out << "VT " << vd::hex(e.name) << " " << vd::hex(cause(e)) << "\n";
				}
			} else if (op == "ASSIGN" || op == "INIT") {
				vd::Toks t(rest);
				std::string loc = vd::unhex(t.next());
				Data d = vd::parseData(t);
				try {
					if (op == "ASSIGN") s->dm().assign(loc, d); else s->dm().init(loc, d);
					*out << "A ok\n";
				} catch (Event e) {
					*out << "AT " << vd::hex(e.name) << " " << vd::hex(cause(e)) << "\n";
				}
			} else if (op == "RECV") {
				vd::Toks t(rest);
				Event e = vd::parseEvent(t);
				s->ensure();      // receive() before the first step() has no queue to put the event in
				s->ip.receive(e);
				*out << "Q ok\n";
			} else if (op == "SESSION") {
				s->ensure();
				*out << "S " << vd::hex(s->ip.getImpl()->getSessionId()) << " " << vd::hex(s->ip.getImpl()->getName()) << "\n";
			} else {
				*out << "?? " << op << "\n";
			}
		} catch (Event e) {
			*out << "XT " << vd::hex(e.name) << " " << vd::hex(cause(e)) << "\n";
		} catch (std::exception& e) {
			*out << "XX " << vd::hex(e.what()) << "\n";
		} catch (...) {
			*out << "XX " << vd::hex("unknown exception") << "\n";
		}
	}
	return 0;
}
