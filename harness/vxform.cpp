// vxform <outdir>: in-process transformer driver. stdin: "JOB <id> <c|pml|vhdl> <xmlbytes> [url]\n<xml>\n" repeated.
// Writes <outdir>/<id>.<type> (emitted text) and <outdir>/<id>.<type>.ann.xml (annotated document); prints "DONE <id>" / "FAIL <id> <why>".
#include "uscxml/config.h"
#include "uscxml/Interpreter.h"
#include "uscxml/transform/ChartToC.h"
#include "uscxml/transform/ChartToVHDL.h"
#include "uscxml/transform/ChartToPromela.h"
#include "uscxml/util/DOM.h"
#include <iostream>
#include <fstream>
#include <sstream>
using namespace uscxml;

int main(int argc, char** argv) {
	std::string outdir = argc > 1 ? argv[1] : ".";
	std::string line;
	while (std::getline(std::cin, line)) {
		if (line.compare(0, 4, "JOB ") != 0) continue;
		std::istringstream is(line.substr(4));
		std::string id, type, url; size_t nbytes = 0;
		is >> id >> type >> nbytes >> url;
		if (url.empty()) url = "file:///verif/charts/chart.scxml";
		std::string xml(nbytes, ' ');
		std::cin.read(&xml[0], nbytes);
		std::getline(std::cin, line);
		std::cout << "JOB " << id << std::endl;
		try {
			Interpreter ip = Interpreter::fromXML(xml, url);
			Transformer t;
			if (type == "c") t = ChartToC::transform(ip);
			else if (type == "pml") t = ChartToPromela::transform(ip);
			else if (type == "vhdl") t = ChartToVHDL::transform(ip);
			else { std::cout << "FAIL " << id << " unknown type" << std::endl; continue; }
			{
				std::ofstream os((outdir + "/" + id + "." + type).c_str());
				t.writeTo(os);
			}
			{
				std::ofstream os((outdir + "/" + id + "." + type + ".ann.xml").c_str());
				os << (*t.getImpl()->getDocument());
			}
			std::cout << "DONE " << id << std::endl;
		} catch (Event e) {
			std::cout << "FAIL " << id << " event " << e.name << std::endl;
		} catch (std::exception& e) {
			std::cout << "FAIL " << id << " std " << e.what() << std::endl;
		} catch (...) {
			std::cout << "FAIL " << id << " unknown" << std::endl;
		}
	}
	return 0;
}
