// C12 subject driver: reads "descriptors<TAB>name" lines, prints one line per input:
//   "<uscxml::nameMatch> <StateMachine::nameMatch from test-gen-c.cpp>"
// The scaffolding shipped for generated C (test/src/test-gen-c.cpp) is #included verbatim so the shipped text is what runs.
#define main genc_scaffold_main
#include "test-gen-c.cpp"
#undef main
#include "uscxml/util/String.h"
#include <iostream>
#include <string>

int main(int argc, char** argv) {
	std::string line;
	while (std::getline(std::cin, line)) {
		size_t tab = line.find('\t');
		if (tab == std::string::npos) continue;
		std::string descs = line.substr(0, tab), name = line.substr(tab + 1);
		bool a = uscxml::nameMatch(descs, name);
		bool b = StateMachine::nameMatch(descs, name);
		std::cout << (a ? 1 : 0) << " " << (b ? 1 : 0) << "\n";
	}
	return 0;
}
