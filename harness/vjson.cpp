// vjson: C15 subject driver. Calls Data::toJSON / Data::fromJSON / Event::operator Data / Event::fromData directly.
//
// stdin (one request per line, wire format of vdata.h), stdout one flushed answer line per request (so that the number of
// complete answer lines identifies the request a crash or hang happened in):
//   RT <data>        ->  RT <eq> <jsonhex> <data'>     eq: 1/0 = Data::operator==(d, fromJSON(toJSON(d))), - = not evaluated (depth > 12), T = fromJSON threw (then <data'> = message hex)
//   EV <event...>    ->  EV <eq> <asdata> | <event'>   eq: Event::operator==(e, fromData(Data(e)))
//   PJ <byteshex>    ->  PJ ok <natoms> | PJ throw | PJ stdexc   parse arbitrary bytes; result is walked and re-serialised so a dangling result would be seen
#include "vdata.h"
#include <iostream>
#include <string>
#include <algorithm>

using namespace uscxml;

static size_t walk(const Data& d) {
	size_t n = d.atom.size() ? 1 : 0;
	for (auto& c : d.array) n += walk(c);
	for (auto& kv : d.compound) n += kv.first.size() * 0 + walk(kv.second);
	return n;
}

static size_t depth(const Data& d) {
	size_t m = 0;
	for (auto& c : d.array) m = std::max(m, depth(c));
	for (auto& kv : d.compound) m = std::max(m, depth(kv.second));
	return m + 1;
}

// Data::operator== costs 2^depth comparisons (operator!= evaluates a<b || b<a and operator< compares the children with !=), so it is
// only consulted for trees nested at most this deep; deeper trees are judged by the structural walk alone (eq is printed as '-')
static const size_t kMaxDepthForOperatorEq = 12;

int main(int argc, char** argv) {
	std::ios::sync_with_stdio(false);
	std::string line;
	while (std::getline(std::cin, line)) {
		if (line.size() < 3) continue;
		std::string kind = line.substr(0, 2);
		std::ostringstream os;
		try {
			if (kind == "RT") {
				vd::Toks t(line.substr(3));
				Data d = vd::parseData(t);
				std::string js = Data::toJSON(d);
				os << "RT ";
				try {
					Data d2 = Data::fromJSON(js);
					os << (std::max(depth(d), depth(d2)) > kMaxDepthForOperatorEq ? "-" : (d == d2) ? "1" : "0") << " " << vd::hex(js) << " ";
					vd::dumpData(os, d2);
				} catch (Event e) {
					std::string msg = e.name + " " + (e.data.hasKey("cause") ? e.data.at("cause").atom : std::string());
					os << "T " << vd::hex(js) << " " << vd::hex(msg);
				}
			} else if (kind == "EV") {
				vd::Toks t(line);
				Event e = vd::parseEvent(t);
				Data asData = e.operator Data();
				Event e2 = Event::fromData(asData);
				os << "EV " << ((e == e2) ? "1" : "0") << " ";
				vd::dumpData(os, asData);
				os << " | ";
				vd::dumpEvent(os, e2);
			} else if (kind == "PJ") {
				std::string bytes = vd::unhex(line.substr(3));
				try {
					Data d = Data::fromJSON(bytes);
					size_t n = walk(d);
					std::string again = Data::toJSON(d);
					os << "PJ ok " << n << " " << again.size();
				} catch (Event e) {
					os << "PJ throw";
				} catch (std::exception& e) {
					os << "PJ stdexc";
				}
			} else {
				os << "?? unknown request";
			}
		} catch (std::exception& e) {
			os.str("");
			os << "HARNESS-ERROR " << e.what();
		}
		std::cout << os.str() << "\n";
		std::cout.flush();
	}
	return 0;
}
