/* LD_PRELOAD shim for C20: the wall clock as seen by the process is shifted by VERIF_TIME_OFFSET seconds (days, typically), so that output
 * which depends on the date of the run differs between two runs of the same input. Monotonic clocks are left alone. */
#define _GNU_SOURCE
#include <dlfcn.h>
#include <stdlib.h>
#include <time.h>
#include <sys/time.h>

static long off(void) { static long o = -1; static int init = 0; if (!init) { const char* e = getenv("VERIF_TIME_OFFSET"); o = e ? atol(e) : 0; init = 1; } return o; }

time_t time(time_t* t) {
	static time_t (*real)(time_t*) = NULL;
	if (!real) real = (time_t (*)(time_t*))dlsym(RTLD_NEXT, "time");
	time_t v = real(NULL) + off();
	if (t) *t = v;
	return v;
}
int gettimeofday(struct timeval* tv, void* tz) {
	static int (*real)(struct timeval*, void*) = NULL;
	if (!real) real = (int (*)(struct timeval*, void*))dlsym(RTLD_NEXT, "gettimeofday");
	int r = real(tv, tz);
	if (r == 0 && tv) tv->tv_sec += off();
	return r;
}
int clock_gettime(clockid_t id, struct timespec* ts) {
	static int (*real)(clockid_t, struct timespec*) = NULL;
	if (!real) real = (int (*)(clockid_t, struct timespec*))dlsym(RTLD_NEXT, "clock_gettime");
	int r = real(id, ts);
	if (r == 0 && ts && id == CLOCK_REALTIME) ts->tv_sec += off();
	return r;
}
