// vthr: threaded stress / forced-schedule driver (C08-C11).
//   vthr <mode> <chart.scxml> key=value ...
// modes:
//   producers : N producer threads call receive() with uniquely named events p<i>.<n>; one stepping thread; (C08)
//   timers    : run the chart until quiescent for `quiet` ms, recording send/cancel content and processed events with timestamps (C09, C11)
//   churn     : create / step a little / destroy `count` interpreters (C10)
//   cancelrace: stepper blocked in step(); another thread calls cancel() / receive() / destroys (C10)
// common keys: seed, engine, yield (permille of hook hits that yield/sleep), script (forced-schedule script, see Hook), maxms
// Output: one record per line "<seq> <usec> <thread> <kind> <args>"; records are buffered per thread and merged at the end.
#include "uscxml/config.h"
#include "uscxml/Interpreter.h"
#include "uscxml/interpreter/InterpreterImpl.h"
#include "uscxml/interpreter/InterpreterMonitor.h"
#include "uscxml/interpreter/LoggingImpl.h"
#include "uscxml/util/DOM.h"
#include "uscxml/util/VerifHooks.h"
#include "uscxml/plugins/Factory.h"
#include <atomic>
#include <chrono>
#include <thread>
#include <mutex>
#include <condition_variable>
#include <vector>
#include <map>
#include <fstream>
#include <sstream>
#include <iostream>
#include <cstring>
#include <sched.h>
#include <time.h>
#include <unistd.h>

using namespace uscxml;

// ------------------------------------------------------------------ recording (per-thread buffers, relaxed global sequence)
static std::atomic<uint64_t> gSeq(0), gAct(0);   // gAct: records other than schedule-point hits (activity of any session)
static std::chrono::steady_clock::time_point gT0;
struct Buf { std::vector<std::string> lines; std::string name; };
static std::mutex gBufMutex;                 // only taken when a thread registers / at the final merge
static std::vector<Buf*> gBufs;
static thread_local Buf* tBuf = NULL;
static thread_local char tName[32] = "?";

static std::atomic<int> gAnon(0);
static Buf* buf() {
	if (!tBuf) {
		if (tName[0] == '?') snprintf(tName, 32, "t%d", gAnon.fetch_add(1));   // threads the library starts (invoked sessions, delay queues) get distinct names
		tBuf = new Buf(); tBuf->name = tName; std::lock_guard<std::mutex> l(gBufMutex); gBufs.push_back(tBuf);
	}
	return tBuf;
}
static void setName(const char* n) { strncpy(tName, n, 31); if (tBuf) tBuf->name = n; }
static long usec() { return std::chrono::duration_cast<std::chrono::microseconds>(std::chrono::steady_clock::now() - gT0).count(); }
static void rec(const std::string& kind, const std::string& args) {
	Buf* b = buf();
	uint64_t s = gSeq.fetch_add(1, std::memory_order_relaxed);
	if (kind[0] != 'H') gAct.fetch_add(1, std::memory_order_relaxed);
	std::ostringstream os; os << s << " " << usec() << " " << tName << " " << kind << " " << args;
	b->lines.push_back(os.str());
}
static void dumpAll() {
	std::lock_guard<std::mutex> l(gBufMutex);
	for (auto b : gBufs) for (auto& ln : b->lines) std::cout << ln << "\n";
	std::cout.flush();
}

// ------------------------------------------------------------------ hook: seeded yields + forced-schedule script
// script syntax: "site:wait:FLAG[:ms]" park at site until FLAG is set (or ms, default 3000), "site:set:FLAG", "site:sleep:us"; separated by ','
// every action fires once (first hit of the site) unless suffixed with '*'
struct Action { std::string site, role, op, arg; long n; bool every; std::atomic<int> fired; Action() : n(0), every(false), fired(0) {} };   // site may be written site@role: only threads whose name starts with role
static std::vector<Action*> gScript;
static std::mutex gFlagMutex; static std::condition_variable gFlagCond; static std::map<std::string, bool> gFlags;
static std::atomic<int> gYieldPermille(0);
static std::atomic<uint64_t> gHookHits(0);
static thread_local uint64_t tRng = 0;
static uint64_t gSeed = 1;

static void setFlag(const std::string& f) { std::lock_guard<std::mutex> l(gFlagMutex); gFlags[f] = true; gFlagCond.notify_all(); }
static bool waitFlag(const std::string& f, long ms) {
	std::unique_lock<std::mutex> l(gFlagMutex);
	return gFlagCond.wait_for(l, std::chrono::milliseconds(ms), [&] { return gFlags[f]; });
}
static void hookFn(const char* site, const void* obj) {
	gHookHits.fetch_add(1, std::memory_order_relaxed);
	rec("H", site);
	for (auto a : gScript) {
		if (a->site != site) continue;
		if (!a->role.empty() && strncmp(tName, a->role.c_str(), a->role.size()) != 0) continue;
		if (!a->every && a->fired.exchange(1) != 0) continue;
		if (a->op == "set") { rec("HS", a->arg); setFlag(a->arg); }
		else if (a->op == "wait") { rec("HW", a->arg); bool ok = waitFlag(a->arg, a->n > 0 ? a->n : 3000); rec(ok ? "HR" : "HT", a->arg); }
		else if (a->op == "sleep") { struct timespec ts = {0, a->n * 1000L}; nanosleep(&ts, NULL); }
	}
	int pm = gYieldPermille.load(std::memory_order_relaxed);
	if (pm > 0) {
		if (tRng == 0) tRng = gSeed * 0x9E3779B97F4A7C15ULL ^ (uint64_t)(uintptr_t)&tRng;
		tRng ^= tRng << 13; tRng ^= tRng >> 7; tRng ^= tRng << 17;
		if ((int)(tRng % 1000) < pm) {
			if ((tRng >> 20) & 1) sched_yield();
			else { struct timespec ts = {0, (long)((tRng >> 24) % 200) * 1000L}; nanosleep(&ts, NULL); }
		}
	}
}
static void parseScript(const std::string& s) {
	std::stringstream ss(s); std::string item;
	while (std::getline(ss, item, ',')) {
		if (item.empty()) continue;
		Action* a = new Action();
		if (item.back() == '*') { a->every = true; item.pop_back(); }
		std::stringstream is(item); std::string f; std::vector<std::string> p;
		while (std::getline(is, f, ':')) p.push_back(f);
		if (p.size() < 3) continue;
		a->site = p[0]; a->op = p[1]; a->arg = p[2];
		size_t at = a->site.find('@'); if (at != std::string::npos) { a->role = a->site.substr(at + 1); a->site = a->site.substr(0, at); }
		if (a->op == "sleep") a->n = atol(p[2].c_str());
		if (p.size() > 3) a->n = atol(p[3].c_str());
		gScript.push_back(a);
	}
}

// ------------------------------------------------------------------ monitor / logger
static std::string nm(const XERCESC_NS::DOMElement* e) { return HAS_ATTR(e, kXMLCharId) ? ATTR(e, kXMLCharId) : std::string("#root"); }
struct Mon : public InterpreterMonitor {
	void beforeProcessingEvent(const std::string& sid, const Event& ev) override { rec("E", sid.substr(0, 8) + " " + ev.name + " " + (ev.eventType == Event::INTERNAL ? "i" : ev.eventType == Event::EXTERNAL ? "e" : "p") + " " + (ev.invokeid.size() ? ev.invokeid : "-")); }
	void beforeMicroStep(const std::string& sid) override { rec("MB", sid.substr(0, 8)); }
	void afterMicroStep(const std::string& sid) override { rec("MA", sid.substr(0, 8)); }
	void onStableConfiguration(const std::string& sid) override { rec("S", sid.substr(0, 8)); }
	void beforeCompletion(const std::string& sid) override { rec("KB", sid.substr(0, 8)); }
	void afterCompletion(const std::string& sid) override { rec("KA", sid.substr(0, 8)); }
	void beforeEnteringState(const std::string& sid, const std::string& n, const XERCESC_NS::DOMElement* s) override { rec("NB", sid.substr(0, 8) + " " + nm(s)); }
	void beforeExitingState(const std::string& sid, const std::string& n, const XERCESC_NS::DOMElement* s) override { rec("XB", sid.substr(0, 8) + " " + nm(s)); }
	static std::string cancelId(const XERCESC_NS::DOMElement* e) { return HAS_ATTR(e, kXMLCharSendId) ? ATTR(e, kXMLCharSendId) : std::string("expr:") + ATTR(e, kXMLCharSendIdExpr); }
	void beforeExecutingContent(const std::string& sid, const XERCESC_NS::DOMElement* e) override {
		std::string t = TAGNAME(e);
		if (t == "send" || t == "cancel") rec("CB", sid.substr(0, 8) + " " + t + " " + (t == "send" ? ATTR(e, kXMLCharEvent) + " " + (HAS_ATTR(e, kXMLCharDelay) ? ATTR(e, kXMLCharDelay) : "0") + " " + (HAS_ATTR(e, kXMLCharId) ? ATTR(e, kXMLCharId) : "-") : cancelId(e)));
	}
	void afterExecutingContent(const std::string& sid, const XERCESC_NS::DOMElement* e) override {
		std::string t = TAGNAME(e);
		if (t == "send" || t == "cancel") rec("CA", sid.substr(0, 8) + " " + t + " " + (t == "send" ? ATTR(e, kXMLCharEvent) : cancelId(e)));
	}
	void beforeInvoking(const std::string& sid, const XERCESC_NS::DOMElement* e, const std::string& id) override { rec("IB", sid.substr(0, 8) + " " + id); }
	void afterInvoking(const std::string& sid, const XERCESC_NS::DOMElement* e, const std::string& id) override { rec("IA", sid.substr(0, 8) + " " + id); }
	void beforeUninvoking(const std::string& sid, const XERCESC_NS::DOMElement* e, const std::string& id) override { rec("UB", sid.substr(0, 8) + " " + id); }
	void afterUninvoking(const std::string& sid, const XERCESC_NS::DOMElement* e, const std::string& id) override { rec("UA", sid.substr(0, 8) + " " + id); }
};
struct RecLogger : public LoggerImpl {
	std::shared_ptr<LoggerImpl> create() override { return std::shared_ptr<LoggerImpl>(new RecLogger()); }
	static std::string one(std::string t) { while (!t.empty() && t.back() == '\n') t.pop_back(); for (auto& c : t) if (c == '\n') c = ' '; return t; }
	void log(LogSeverity s, const Event& e) override { if (s == USCXML_LOG) rec("L", one(e.name)); }
	void log(LogSeverity s, const Data& d) override { if (s == USCXML_LOG) rec("L", one(d.asJSON())); }
	void log(LogSeverity s, const std::string& m) override { if (s == USCXML_LOG) rec("L", one(m)); }
};

static std::map<std::string, std::string> gArgs;
static std::string arg(const std::string& k, const std::string& d) { return gArgs.count(k) ? gArgs[k] : d; }
static long argl(const std::string& k, long d) { return gArgs.count(k) ? atol(gArgs[k].c_str()) : d; }

static Interpreter mk(const std::string& xml, Mon* mon, bool copy = true) {
	Interpreter ip = Interpreter::fromXML(xml, "file:///verif/charts/thr.scxml");
	ActionLanguage al;
	std::string eng = arg("engine", "large");
	if (eng != "default") al.microStepper = Factory::getInstance()->createMicroStepper(eng, (MicroStepCallbacks*)ip.getImpl().get());
	al.logger = Logger(std::shared_ptr<LoggerImpl>(new RecLogger()));
	ip.setActionLanguage(al);
	if (mon) { if (copy) mon->copyToInvokers(true); ip.addMonitor(mon); }
	return ip;
}

// ------------------------------------------------------------------ modes
static int modeProducers(const std::string& xml) {
	int N = argl("producers", 4), M = argl("events", 500);
	Mon mon; Interpreter ip = mk(xml, &mon);
	if (argl("early", 0) == 0) for (int i = 0; i < 6; i++) ip.step(0);     // initialise and reach idle; early=1: producers race with the first step() (lazy creation of queue and microstepper)
	std::atomic<int> live(N);
	std::vector<std::thread> th;
	for (int i = 0; i < N; i++) th.push_back(std::thread([&, i] {
		char n[32]; snprintf(n, 32, "prod%d", i); setName(n);
		for (int k = 0; k < M; k++) {
			char en[48]; snprintf(en, 48, "p%d.%d", i, k);
			Event e(en, Event::EXTERNAL);
			rec("SEND", en); ip.receive(e); rec("SENT", en);
			if ((k & 63) == 0) sched_yield();
			long pace = argl("pace", 0);      // pace=us: slow producers, so that the queue runs empty and the stepper really goes to sleep between events
			if (pace > 0) { struct timespec ts = {0, (long)(((k * 2654435761u + i * 40503u) % (unsigned long)pace) * 1000L)}; nanosleep(&ts, NULL); }
		}
		live.fetch_sub(1);
	}));
	setName("stepper");
	uint64_t r = gSeed * 77 + 1; InterpreterState st = USCXML_UNDEF; int idle = 0; long deadline = usec() + argl("maxms", 60000) * 1000L;
	while (st != USCXML_FINISHED && usec() < deadline) {
		r = r * 6364136223846793005ULL + 1442695040888963407ULL;
		int kind = (r >> 33) % 3;
		long block = argl("block", 0);    // block=N: the stepper really sleeps in step(N): every enqueue has to wake it
		st = ip.step(block > 0 ? (size_t)block : (kind == 0 ? 0 : (kind == 1 ? 5 : 1)));
		rec("R", std::to_string((int)st));
		if (st == USCXML_IDLE) { if (live.load() == 0 && ++idle >= (block > 0 ? 1 : 2)) break; } else idle = 0;
	}
	for (auto& t : th) t.join();
	// final drain
	for (int i = 0; i < 50; i++) { st = ip.step(0); rec("R", std::to_string((int)st)); if (st == USCXML_IDLE || st == USCXML_FINISHED) { if (i > 3) break; } }
	rec("DONE", "hooks=" + std::to_string(gHookHits.load()));
	return 0;
}

static int modeTimers(const std::string& xml) {
	Mon mon; Interpreter ip = mk(xml, &mon);
	setName("stepper");
	long quiet = argl("quiet", 600) * 1000L, deadline = usec() + argl("maxms", 20000) * 1000L, lastActivity = usec();
	std::string ext = arg("send", ""); std::string extwait = arg("sendwhen", "");   // send external event `send` once flag `sendwhen` is set (or immediately after idle)
	bool sent = ext.empty();
	InterpreterState st = USCXML_UNDEF;
	std::thread sender;
	if (!ext.empty() && !extwait.empty()) {
		sender = std::thread([&] { setName("sender"); if (waitFlag(extwait, argl("maxms", 20000))) { Event e(ext, Event::EXTERNAL); rec("SEND", ext); ip.receive(e); rec("SENT", ext); } });
		sent = true;
	}
	// fwd=N: a sender thread feeds external events fwd.1 .. fwd.N, one every fwdms ms (C11: autoforward, parent busy while children run)
	std::thread feeder; std::atomic<bool> feeding(false);
	if (argl("fwd", 0) > 0) {
		feeding = true;
		feeder = std::thread([&] {
			setName("feeder");
			for (long i = 1; i <= argl("fwd", 0); i++) {
				std::this_thread::sleep_for(std::chrono::milliseconds(argl("fwdms", 5)));
				char en[32]; snprintf(en, 32, "fwd.%ld", i); Event e(en, Event::EXTERNAL); rec("SEND", en); ip.receive(e); rec("SENT", en);
			}
			feeding = false;
		});
	}
	bool gquiet = argl("gquiet", 0) != 0; uint64_t lastSeq = gAct.load();   // gquiet=1: quiescence = no record from ANY thread (children included) for `quiet` ms
	std::string stopwhen = arg("stopwhen", "");
	while (st != USCXML_FINISHED && usec() < deadline) {
		if (gquiet) { uint64_t q = gAct.load(); if (q != lastSeq || feeding.load()) { lastSeq = q; lastActivity = usec(); } }
		if (!stopwhen.empty() && waitFlag(stopwhen, 0)) {
			rec("STOP", stopwhen);
			if (arg("atstop", "") == "reset") {
				// reset() instead of destruction while the timer thread sits in a delivery; the session then starts over
				rec("RESET", "begin"); ip.reset(); rec("RESET", "end");
				stopwhen.clear(); lastActivity = usec(); st = USCXML_UNDEF; continue;
			}
			break;
		}
		st = ip.step(stopwhen.empty() ? (size_t)argl("block", 20) : 2);   // block=N: a stepper that really sleeps in step() (events must wake it)
		if (st != USCXML_IDLE) { lastActivity = usec(); rec("R", std::to_string((int)st)); }
		else if (!sent) { Event e(ext, Event::EXTERNAL); rec("SEND", ext); ip.receive(e); sent = true; lastActivity = usec(); }
		else if (usec() - lastActivity > quiet) break;
	}
	if (feeder.joinable()) feeder.join();
	rec("END", std::to_string((int)st));
	if (sender.joinable()) { setFlag(extwait); sender.join(); }
	if (arg("destroy", "1") == "1") { rec("DESTROY", "begin"); ip = Interpreter(); rec("DESTROY", "end"); }
	return 0;
}

static int modeChurn(const std::string& xml) {
	int count = argl("count", 500), steps = argl("steps", 3);
	setName("main");
	for (int i = 0; i < count; i++) {
		Interpreter ip = mk(xml, NULL);
		for (int k = 0; k < (steps + (i % 3)); k++) ip.step(0);
		if (i % 5 == 0) { Event e("go", Event::EXTERNAL); ip.receive(e); ip.step(0); }
		if (i % 7 == 0) ip.cancel();
		rec("D", std::to_string(i));
	}   // each interpreter is destroyed at the end of its iteration
	rec("DONE", "churn " + std::to_string(count));
	return 0;
}

static int modeCancelRace(const std::string& xml) {
	// stepper blocks in step(); `op` from another thread after `afterms`
	std::string op = arg("op", "cancel"); long afterms = argl("afterms", 30);
	Mon mon; Interpreter ip = mk(xml, &mon);
	std::atomic<bool> done(false);
	std::thread other([&] {
		setName("other");
		std::this_thread::sleep_for(std::chrono::milliseconds(afterms));
		rec("OP", op + " begin");
		if (op == "cancel") ip.cancel();
		else if (op == "receive") { Event e("go", Event::EXTERNAL); ip.receive(e); std::this_thread::sleep_for(std::chrono::milliseconds(20)); ip.cancel(); }
		rec("OP", op + " end");
	});
	setName("stepper");
	InterpreterState st = USCXML_UNDEF; int guard = 0;
	while (st != USCXML_FINISHED && guard++ < 2000) { st = ip.step(); rec("R", std::to_string((int)st)); }
	other.join();
	rec("DESTROY", "begin"); ip = Interpreter(); rec("DESTROY", "end");
	return 0;
}

// reset() on the stepping thread while other threads keep calling receive(): nothing may be torn (events handed over around a reset belong
// to the session that ends or to the one that begins - either is fine)
static int modeResetRace(const std::string& xml) {
	int N = argl("producers", 2), M = argl("events", 3000), R = argl("resets", 300);
	Mon mon; Interpreter ip = mk(xml, &mon);
	std::atomic<int> live(N);
	std::vector<std::thread> th;
	for (int i = 0; i < N; i++) th.push_back(std::thread([&, i] {
		char n[32]; snprintf(n, 32, "prod%d", i); setName(n);
		for (int k = 0; k < M; k++) {
			char en[48]; snprintf(en, 48, "p%d.%d", i, k);
			Event e(en, Event::EXTERNAL);
			ip.receive(e);
			if ((k & 31) == 0) sched_yield();
		}
		live.fetch_sub(1);
	}));
	setName("stepper");
	uint64_t r = gSeed * 131 + 7; InterpreterState st = USCXML_UNDEF; int resets = 0;
	while (resets < R && live.load() > 0) {
		r = r * 6364136223846793005ULL + 1442695040888963407ULL;
		int k = (int)((r >> 33) % 9);
		for (int i = 0; i < k && st != USCXML_FINISHED; i++) st = ip.step(0);
		rec("RESET", "begin"); ip.reset(); rec("RESET", "end"); resets++; st = USCXML_UNDEF;
	}
	for (auto& t : th) t.join();
	for (int i = 0; i < 20; i++) { st = ip.step(0); if (st == USCXML_FINISHED) break; }
	rec("DONE", "resets=" + std::to_string(resets));
	rec("DESTROY", "begin"); ip = Interpreter(); rec("DESTROY", "end");
	return 0;
}

int main(int argc, char** argv) {
	gT0 = std::chrono::steady_clock::now();
	if (argc < 3) { fprintf(stderr, "usage: vthr <mode> <chart> key=value...\n"); return 2; }
	std::string mode = argv[1];
	std::ifstream f(argv[2]); std::stringstream ss; ss << f.rdbuf(); std::string xml = ss.str();
	for (int i = 3; i < argc; i++) { std::string a = argv[i]; size_t eq = a.find('='); if (eq != std::string::npos) gArgs[a.substr(0, eq)] = a.substr(eq + 1); }
	gSeed = argl("seed", 1); gYieldPermille = (int)argl("yield", 0);
	parseScript(arg("script", ""));
	setName("main");
	uscxml::verif::hook.store(hookFn);
	int rc = 0;
	try {
		if (mode == "producers") rc = modeProducers(xml);
		else if (mode == "timers") rc = modeTimers(xml);
		else if (mode == "churn") rc = modeChurn(xml);
		else if (mode == "cancelrace") rc = modeCancelRace(xml);
		else if (mode == "resetrace") rc = modeResetRace(xml);
		else { fprintf(stderr, "unknown mode\n"); rc = 2; }
	} catch (Event e) { rec("THROW", e.name); rc = 3; }
	catch (std::exception& e) { rec("THROWSTD", e.what()); rc = 3; }
	uscxml::verif::hook.store(NULL);
	dumpAll();
	return rc;
}
