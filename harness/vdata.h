// vdata.h: faithful, binary-safe wire format for uscxml::Data / uscxml::Event shared by the C15/C16 harnesses (vjson, vlua).
//
// A Data node is a prefix-coded token sequence (tokens separated by one blank, everything on one line):
//     D <V|I> <atomhex|-> <narray> <nmap> <flags|->   followed by <narray> nodes, then <nmap> x ( <keyhex|-> node )
// flags: n = DOM node set, b = binary set.  Strings are hex encoded ("-" = empty) so every byte value survives the pipe.
// The dump shows every populated member (atom, array AND compound), so nothing Data::operator== / toJSON might overlook is hidden.
#ifndef VDATA_H
#define VDATA_H
#include "uscxml/messages/Data.h"
#include "uscxml/messages/Event.h"
#include <sstream>
#include <string>
#include <vector>
#include <stdexcept>

namespace vd {

static inline std::string hex(const std::string& s) {
	static const char* dg = "0123456789abcdef";
	if (s.empty()) return "-";
	std::string o;
	o.reserve(s.size() * 2);
	for (unsigned char c : s) { o += dg[c >> 4]; o += dg[c & 15]; }
	return o;
}
static inline int hv(char c) {
	if (c >= '0' && c <= '9') return c - '0';
	if (c >= 'a' && c <= 'f') return c - 'a' + 10;
	if (c >= 'A' && c <= 'F') return c - 'A' + 10;
	throw std::runtime_error("bad hex digit");
}
static inline std::string unhex(const std::string& h) {
	if (h == "-") return "";
	if (h.size() % 2) throw std::runtime_error("odd hex");
	std::string o;
	o.reserve(h.size() / 2);
	for (size_t i = 0; i < h.size(); i += 2) o += (char)(hv(h[i]) * 16 + hv(h[i + 1]));
	return o;
}

struct Toks {
	std::vector<std::string> v;
	size_t i = 0;
	explicit Toks(const std::string& line) {
		std::istringstream is(line);
		std::string t;
		while (is >> t) v.push_back(t);
	}
	const std::string& next() {
		if (i >= v.size()) throw std::runtime_error("short token list");
		return v[i++];
	}
	size_t num() { return (size_t)strtoull(next().c_str(), NULL, 10); }
	bool done() const { return i >= v.size(); }
};

static inline uscxml::Data parseData(Toks& t) {
	if (t.next() != "D") throw std::runtime_error("expected D");
	uscxml::Data d;
	std::string ty = t.next();
	d.type = (ty == "V" ? uscxml::Data::VERBATIM : uscxml::Data::INTERPRETED);
	d.atom = unhex(t.next());
	size_t na = t.num(), nm = t.num();
	t.next(); // flags (input never carries nodes/binaries)
	for (size_t k = 0; k < na; k++) d.array.push_back(parseData(t));
	for (size_t k = 0; k < nm; k++) {
		std::string key = unhex(t.next());
		d.compound[key] = parseData(t);
	}
	return d;
}

static inline void dumpData(std::ostream& os, const uscxml::Data& d) {
	os << "D " << (d.type == uscxml::Data::VERBATIM ? "V" : d.type == uscxml::Data::INTERPRETED ? "I" : "?") << " " << hex(d.atom) << " "
	   << d.array.size() << " " << d.compound.size() << " ";
	std::string fl;
	if (d.node) fl += "n";
	if (d.binary) fl += "b";
	os << (fl.empty() ? "-" : fl);
	for (auto& c : d.array) { os << " "; dumpData(os, c); }
	for (auto& kv : d.compound) { os << " " << hex(kv.first) << " "; dumpData(os, kv.second); }
}

// Event:  EV <name> <sendid> <invokeid> <raw> <origin> <origintype> <eventType> <hideSendId> <nparams> <nnamelist> <data> (key node)*params (key node)*namelist
static inline uscxml::Event parseEvent(Toks& t) {
	if (t.next() != "EV") throw std::runtime_error("expected EV");
	uscxml::Event e;
	e.name = unhex(t.next());
	e.sendid = unhex(t.next());
	e.invokeid = unhex(t.next());
	e.raw = unhex(t.next());
	e.origin = unhex(t.next());
	e.origintype = unhex(t.next());
	e.eventType = (uscxml::Event::Type)t.num();
	e.hideSendId = t.num() != 0;
	size_t np = t.num(), nn = t.num();
	e.data = parseData(t);
	for (size_t k = 0; k < np; k++) {
		std::string key = unhex(t.next());
		e.params.insert(std::make_pair(key, parseData(t)));
	}
	for (size_t k = 0; k < nn; k++) {
		std::string key = unhex(t.next());
		e.namelist[key] = parseData(t);
	}
	return e;
}

static inline void dumpEvent(std::ostream& os, const uscxml::Event& e) {
	os << "EV " << hex(e.name) << " " << hex(e.sendid) << " " << hex(e.invokeid) << " " << hex(e.raw) << " " << hex(e.origin) << " " << hex(e.origintype)
	   << " " << (int)e.eventType << " " << (e.hideSendId ? 1 : 0) << " " << e.params.size() << " " << e.namelist.size() << " ";
	dumpData(os, e.data);
	for (auto& kv : e.params) { os << " " << hex(kv.first) << " "; dumpData(os, kv.second); }
	for (auto& kv : e.namelist) { os << " " << hex(kv.first) << " "; dumpData(os, kv.second); }
}

}
#endif
