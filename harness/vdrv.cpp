// vdrv: batch trace driver (C01-C03, C07, C10, C13, C14, C19, C20).
//
// stdin protocol (text lines):
//   JOB <id> <engine:large|fast|default> <maxsteps> <xmlbytes> [flags...]
//   <xmlbytes bytes of SCXML>\n
//   EV <name>            feed event when the interpreter is idle (history mode)
//   OP <op> [arg]        explicit API operation (script mode): step0 | step <ms> | recv <name> | cancel | reset | ser | deser | destroy | create | state | validate
//   SNAP <k>             (history mode) after the k-th stable point: serialize, resume in a fresh interpreter, continue both
//   END
// stdout: one record per line, see below; "DONE <id>" ends a job. Records are prefixed with "B " for the resumed interpreter in SNAP mode.
#include "uscxml/config.h"
#include "uscxml/Interpreter.h"
#include "uscxml/interpreter/InterpreterImpl.h"
#include "uscxml/interpreter/InterpreterMonitor.h"
#include "uscxml/interpreter/LoggingImpl.h"
#include "uscxml/debug/InterpreterIssue.h"
#include "uscxml/util/DOM.h"
#include "uscxml/plugins/Factory.h"
#include <iostream>
#include <fstream>
#include <sstream>
#include <vector>
#include <cstring>
#include <unistd.h>
#include <chrono>
#define DRAIN_MS 1500
using namespace uscxml;

static std::ostream* out = &std::cout;
static std::string pfx;   // record prefix ("" or "B ")

static std::string oneline(const std::string& s) {
	std::string t = s;
	while (!t.empty() && (t.back() == '\n' || t.back() == '\r')) t.pop_back();
	for (auto& c : t) if (c == '\n' || c == '\r') c = ' ';
	return t;
}
static std::string nm(const XERCESC_NS::DOMElement* e) {
	return HAS_ATTR(e, kXMLCharId) ? ATTR(e, kXMLCharId) : std::string("#") + DOMUtils::xPathForNode(e);
}

struct RecLogger : public LoggerImpl {
	std::string p;
	RecLogger(const std::string& p_) : p(p_) {}
	std::shared_ptr<LoggerImpl> create() override { return std::shared_ptr<LoggerImpl>(new RecLogger(p)); }
	void log(LogSeverity s, const Event& e) override { if (s == USCXML_LOG) *out << p << "L " << oneline(e.name) << "\n"; }
	void log(LogSeverity s, const Data& d) override { if (s == USCXML_LOG) *out << p << "L " << oneline(d.asJSON()) << "\n"; }
	void log(LogSeverity s, const std::string& m) override { if (s == USCXML_LOG) *out << p << "L " << oneline(m) << "\n"; }
};

struct Mon : public InterpreterMonitor {
	Interpreter* ip;
	std::string p;
	bool cfgInCallbacks = true;
	std::string cfg() {
		std::string s;
		// not stepped yet: there is no configuration (and, without an explicit engine, no micro-stepper to ask; getConfiguration() is not among the calls C10 names)
		if (ip->getState() == USCXML_INSTANTIATED) return s;
		try { for (auto e : ip->getConfiguration()) s += nm(e) + " "; } catch (...) { s = "?"; }
		return s;
	}
	void beforeProcessingEvent(const std::string&, const Event& ev) override {
		*out << p << "E " << oneline(ev.name) << " " << (ev.eventType == Event::INTERNAL ? "i" : ev.eventType == Event::EXTERNAL ? "e" : "p") << "\n";
	}
	void beforeMicroStep(const std::string&) override { *out << p << "MB " << cfg() << "\n"; }
	void afterMicroStep(const std::string&) override { *out << p << "MA " << cfg() << "\n"; }
	void beforeExitingState(const std::string&, const std::string& n, const XERCESC_NS::DOMElement* s) override { *out << p << "XB " << nm(s) << "\n"; }
	void afterExitingState(const std::string&, const std::string& n, const XERCESC_NS::DOMElement* s) override { *out << p << "XA " << nm(s) << "\n"; }
	void beforeEnteringState(const std::string&, const std::string& n, const XERCESC_NS::DOMElement* s) override { *out << p << "NB " << nm(s) << "\n"; }
	void afterEnteringState(const std::string&, const std::string& n, const XERCESC_NS::DOMElement* s) override { *out << p << "NA " << nm(s) << "\n"; }
	void beforeTakingTransition(const std::string&, const XERCESC_NS::DOMElement* t) override { *out << p << "TB " << DOMUtils::xPathForNode(t) << "\n"; }
	void afterTakingTransition(const std::string&, const XERCESC_NS::DOMElement* t) override { *out << p << "TA " << DOMUtils::xPathForNode(t) << "\n"; }
	void beforeExecutingContent(const std::string&, const XERCESC_NS::DOMElement* t) override { *out << p << "CB " << DOMUtils::xPathForNode(t) << "\n"; }
	void afterExecutingContent(const std::string&, const XERCESC_NS::DOMElement* t) override { *out << p << "CA " << DOMUtils::xPathForNode(t) << "\n"; }
	void beforeInvoking(const std::string&, const XERCESC_NS::DOMElement* e, const std::string& id) override { *out << p << "IB " << DOMUtils::xPathForNode(e) << " " << id << "\n"; }
	void afterInvoking(const std::string&, const XERCESC_NS::DOMElement* e, const std::string& id) override { *out << p << "IA " << DOMUtils::xPathForNode(e) << " " << id << "\n"; }
	void beforeUninvoking(const std::string&, const XERCESC_NS::DOMElement* e, const std::string& id) override { *out << p << "UB " << DOMUtils::xPathForNode(e) << " " << id << "\n"; }
	void afterUninvoking(const std::string&, const XERCESC_NS::DOMElement* e, const std::string& id) override { *out << p << "UA " << DOMUtils::xPathForNode(e) << " " << id << "\n"; }
	void onStableConfiguration(const std::string&) override { *out << p << "S " << cfg() << "\n"; }
	void beforeCompletion(const std::string&) override { *out << p << "KB " << cfg() << "\n"; }
	void afterCompletion(const std::string&) override { *out << p << "KA\n"; }
	void reportIssue(const std::string&, const InterpreterIssue& issue) override { *out << p << "ISSUE " << oneline(issue.message) << "\n"; }
};

struct Job {
	std::string id, engine, xml;
	int maxsteps = 400;
	std::vector<std::string> flags;
	std::vector<std::pair<std::string, std::string> > script; // (kind, arg)
	bool flag(const std::string& f) const { for (auto& x : flags) if (x == f) return true; return false; }
};

struct Session {
	Interpreter ip;
	Mon mon;
	std::string p;
	bool valid = false;
};

static void make(Session& s, const Job& j, const std::string& p) {
	s.p = p;
	s.ip = Interpreter::fromXML(j.xml, j.flag("url2") ? "file:///verif/charts/other.scxml" : "file:///verif/charts/chart.scxml");
	ActionLanguage al;
	if (j.engine != "default")
		al.microStepper = Factory::getInstance()->createMicroStepper(j.engine, (MicroStepCallbacks*)s.ip.getImpl().get());
	al.logger = Logger(std::shared_ptr<LoggerImpl>(new RecLogger(p)));
	s.ip.setActionLanguage(al);
	s.mon.ip = &s.ip; s.mon.p = p;
	if (j.flag("lambda-after") || j.flag("lambda-before")) {
		// the lambda front end of the monitor API (Interpreter::on()): one callback per notice, either all 'before' or all 'after' ones
		bool after = j.flag("lambda-after");
		LambdaMonitor& lm = s.ip.on();
		const char* B = after ? "A" : "B";
		std::string pp = p + "LM ";
		lm.processEvent([pp](const std::string&, const Event& ev) { *out << pp << "E " << oneline(ev.name) << "\n"; });
		lm.stableConfiguration([pp](const std::string&) { *out << pp << "S\n"; });
		lm.microStep([pp, B](const std::string&) { *out << pp << "M" << B << "\n"; }, after);
		lm.completion([pp, B](const std::string&) { *out << pp << "K" << B << "\n"; }, after);
		lm.enterState([pp, B](const std::string&, const std::string&, const XERCESC_NS::DOMElement* st) { *out << pp << "N" << B << " " << nm(st) << "\n"; }, after);
		lm.exitState([pp, B](const std::string&, const std::string&, const XERCESC_NS::DOMElement* st) { *out << pp << "X" << B << " " << nm(st) << "\n"; }, after);
		lm.transition([pp, B](const std::string&, const XERCESC_NS::DOMElement* t) { *out << pp << "T" << B << " " << DOMUtils::xPathForNode(t) << "\n"; }, after);
		lm.executeContent([pp, B](const std::string&, const XERCESC_NS::DOMElement* t) { *out << pp << "C" << B << " " << DOMUtils::xPathForNode(t) << "\n"; }, after);
		lm.invoke([pp, B](const std::string&, const XERCESC_NS::DOMElement* e, const std::string& id) { *out << pp << "I" << B << " " << DOMUtils::xPathForNode(e) << " " << id << "\n"; }, after);
		lm.uninvoke([pp, B](const std::string&, const XERCESC_NS::DOMElement* e, const std::string& id) { *out << pp << "U" << B << " " << DOMUtils::xPathForNode(e) << " " << id << "\n"; }, after);
	}
	if (!j.flag("nomon")) {
		if (j.flag("copymon")) s.mon.copyToInvokers(true);
		s.ip.addMonitor(&s.mon);
	}
	s.valid = true;
}

static void dumpEnd(Session& s, const Job& j) {
	*out << s.p << "END " << s.mon.cfg() << "\n";
	if (!j.flag("novars")) {
		for (const char* v : {"x", "y", "z"}) {
			try { *out << s.p << "V " << v << " " << oneline(s.ip.getImpl()->evalAsData(v).asJSON()) << "\n"; }
			catch (Event e) { *out << s.p << "V " << v << " ERR\n"; }
			catch (...) { *out << s.p << "V " << v << " ERR\n"; }
		}
	}
}

static void validate(Session& s) {
	std::list<InterpreterIssue> issues = s.ip.validate();
	for (auto& i : issues) {
		*out << s.p << "VI " << (i.severity == InterpreterIssue::USCXML_ISSUE_FATAL ? "FATAL" : i.severity == InterpreterIssue::USCXML_ISSUE_WARNING ? "WARN" : "INFO")
		     << " " << oneline(i.xPath) << " :: " << oneline(i.message) << "\n";
	}
	*out << s.p << "VDONE " << issues.size() << "\n";
}

// history mode: feed scripted events when idle; optional snapshot/resume at the k-th stable point
static void runHistory(const Job& j) {
	Session a;
	make(a, j, "");
	if (j.flag("validate")) validate(a);
	std::vector<std::string> evs; int snapAt = -1;
	for (auto& s : j.script) { if (s.first == "EV") evs.push_back(s.second); else if (s.first == "SNAP") snapAt = atoi(s.second.c_str()); }
	size_t ev = 0; int guard = 0; int stable = 0; bool cancelledAtEnd = false;
	InterpreterState st = USCXML_UNDEF;
	Session b; size_t evB = 0; bool resumed = false; std::string lateSer;
	size_t pend = j.flag("pending1") ? 1 : j.flag("pending2") ? 2 : 0;  // events queued ahead (so snapshots see a non-empty external queue)
	while (st != USCXML_FINISHED && guard++ < j.maxsteps) {
		st = a.ip.step(0);
		*out << "R " << st << "\n";
		if (st == USCXML_MACROSTEPPED || st == USCXML_IDLE) {
			if (st == USCXML_IDLE) {
				// queue is empty and the configuration stable: feed the next event (plus `pend` more, queued ahead)
				if (ev >= evs.size()) {
					// 'cancelend': the session is cancelled once the history is through, every state still active has to run its exit handlers
					if (j.flag("cancelend") && !cancelledAtEnd) { cancelledAtEnd = true; a.ip.cancel(); continue; }
					break;
				}
				for (size_t k = 0; k < 1 + pend && ev < evs.size(); k++) { Event e(evs[ev++], Event::EXTERNAL); a.ip.receive(e); }
			}
			stable++;
			if (stable == snapAt && !resumed) {
				std::string ser;
				for (auto& f : j.flags) if (f.compare(0, 9, "snapwait:") == 0) usleep(atoi(f.c_str() + 9) * 1000);   // snapshot while delayed events are just becoming due
				try { ser = a.ip.serialize(); } catch (Event e) { *out << "SERTHROW " << oneline(e.name) << "\n"; break; }
				*out << "SER " << oneline(ser) << "\n";
				if (j.flag("lateresume")) { lateSer = ser; resumed = true; evB = ev; continue; }   // resume only when the original is through: pending timers restart at deserialize()
				if (j.flag("foreign")) {
					// negative oracle: a state string must not be accepted by an interpreter for a different document
					Job j2 = j; size_t pos = j2.xml.rfind("</scxml>");
					if (pos != std::string::npos) j2.xml.insert(pos, "<!-- another document -->");
					make(b, j2, "B ");
				} else {
					make(b, j, "B ");
				}
				try { b.ip.deserialize(ser); } catch (Event e) { *out << "DESERTHROW " << oneline(e.name) << " " << oneline(e.data.asJSON()) << "\n"; break; }
				resumed = true; evB = ev;
				*out << "B RESUMED " << b.mon.cfg() << "\n";
			}
		}
	}
	if (guard >= j.maxsteps) *out << "STEPCAP\n";
	if (j.flag("drain")) {
		// wait for pending delayed events: blocking steps until the machine stayed idle for a whole period
		// (an IDLE that comes back early was only the wake-up for something the timer thread put into the internal queue: keep stepping)
		for (int k = 0; k < 40 && st != USCXML_FINISHED; k++) { auto t0 = std::chrono::steady_clock::now(); st = a.ip.step(DRAIN_MS); *out << "R " << st << "\n"; if (st == USCXML_IDLE && std::chrono::steady_clock::now() - t0 >= std::chrono::milliseconds(DRAIN_MS - 100)) break; }
	}
	dumpEnd(a, j);
	if (j.flag("snapfinal") && st == USCXML_FINISHED && !resumed) {
		// a finished session is a stable point too (serialize() accepts it): what is resumed from it has to be finished
		try {
			std::string ser = a.ip.serialize();
			*out << "SER " << oneline(ser) << "\n";
			make(b, j, "B ");
			b.ip.deserialize(ser);
			*out << "B RESUMED " << b.mon.cfg() << "\n";
			pfx = "B ";
			for (int k = 0; k < 4; k++) { InterpreterState sb = b.ip.step(0); *out << "B R " << sb << "\n"; }
			dumpEnd(b, j);
			pfx = "";
		} catch (Event e) { *out << "SERTHROW " << oneline(e.name) << "\n"; }
		return;
	}
	if (resumed) {
		if (j.flag("lateresume")) {
			make(b, j, "B ");
			try { b.ip.deserialize(lateSer); } catch (Event e) { *out << "DESERTHROW " << oneline(e.name) << " " << oneline(e.data.asJSON()) << "\n"; return; }
			*out << "B RESUMED " << b.mon.cfg() << "\n";
		}
		// drive the resumed interpreter with the same continuation
		pfx = "B "; st = USCXML_UNDEF; guard = 0; ev = evB;
		while (st != USCXML_FINISHED && guard++ < j.maxsteps) {
			st = b.ip.step(0);
			*out << "B R " << st << "\n";
			if (st == USCXML_IDLE) {
				if (ev < evs.size()) {
					Event e(evs[ev++], Event::EXTERNAL); b.ip.receive(e);
					for (size_t k = 0; k < pend && ev < evs.size(); k++) { Event e2(evs[ev++], Event::EXTERNAL); b.ip.receive(e2); }
				} else break;
			}
		}
		if (guard >= j.maxsteps) *out << "B STEPCAP\n";
		if (j.flag("drain")) {
			for (int k = 0; k < 40 && st != USCXML_FINISHED; k++) { auto t0 = std::chrono::steady_clock::now(); st = b.ip.step(DRAIN_MS); *out << "B R " << st << "\n"; if (st == USCXML_IDLE && std::chrono::steady_clock::now() - t0 >= std::chrono::milliseconds(DRAIN_MS - 100)) break; }
		}
		dumpEnd(b, j);
		pfx = "";
	}
}

// script mode: explicit API operations
static void runScript(const Job& j) {
	Session* s = new Session();
	make(*s, j, "");
	Mon* mon2 = NULL;
	std::string lastSer;
	for (auto& op : j.script) {
		if (op.first != "OP") continue;
		std::string o = op.second, arg;
		size_t sp = o.find(' ');
		if (sp != std::string::npos) { arg = o.substr(sp + 1); o = o.substr(0, sp); }
		*out << "OP " << op.second << "\n";
		out->flush();
		try {
			if (o == "create") { if (s) { delete s; } s = new Session(); make(*s, j, ""); }
			else if (!s) { *out << "NOSESSION\n"; }
			else if (o == "step0") { InterpreterState st = s->ip.step(0); *out << "R " << st << "\n"; }
			else if (o == "step") { InterpreterState st = s->ip.step(atoi(arg.c_str())); *out << "R " << st << "\n"; }
			else if (o == "recv") { Event e(arg, Event::EXTERNAL); s->ip.receive(e); }
			else if (o == "cancel") { s->ip.cancel(); }
			else if (o == "reset") { s->ip.reset(); }
			else if (o == "state") { InterpreterState st = s->ip.getState(); *out << "ST " << st << "\n"; }
			else if (o == "cfg") { *out << "CFG " << s->mon.cfg() << "\n"; }
			else if (o == "ser") { lastSer = s->ip.serialize(); *out << "SER " << oneline(lastSer) << "\n"; }
			else if (o == "deser") { s->ip.deserialize(lastSer); }
			else if (o == "validate") { validate(*s); }
			else if (o == "destroy") { delete s; s = NULL; }
			else if (o == "vars") { dumpEnd(*s, j); }
			else if (o == "mon2add") { if (!mon2) { mon2 = new Mon(); mon2->ip = &s->ip; mon2->p = "M2 "; } s->ip.addMonitor(mon2); }   // a second monitor attached / detached while the session runs
			else if (o == "mon2del") { if (mon2) s->ip.removeMonitor(mon2); }
		} catch (Event e) { *out << "THROW " << oneline(e.name) << "\n"; }
		catch (std::exception& e) { *out << "THROWSTD " << oneline(e.what()) << "\n"; }
	}
	if (s) { dumpEnd(*s, j); delete s; }
	delete mon2;
}

int main(int argc, char** argv) {
	std::ios::sync_with_stdio(false);
	std::string line;
	while (std::getline(std::cin, line)) {
		if (line.compare(0, 4, "JOB ") != 0) continue;
		Job j;
		{
			std::istringstream is(line.substr(4));
			size_t nbytes = 0;
			is >> j.id >> j.engine >> j.maxsteps >> nbytes;
			std::string f; while (is >> f) j.flags.push_back(f);
			j.xml.resize(nbytes);
			std::cin.read(&j.xml[0], nbytes);
			std::getline(std::cin, line); // rest of line
		}
		bool scripted = false;
		while (std::getline(std::cin, line)) {
			if (line == "END") break;
			size_t sp = line.find(' ');
			std::string k = line.substr(0, sp), a = sp == std::string::npos ? "" : line.substr(sp + 1);
			if (k == "OP") scripted = true;
			j.script.push_back(std::make_pair(k, a));
		}
		*out << "JOB " << j.id << "\n";
		out->flush();
		try {
			if (scripted) runScript(j); else runHistory(j);
		} catch (Event e) {
			*out << "THROW " << oneline(e.name) << " " << oneline(e.data.asJSON()) << "\n";
		} catch (std::exception& e) {
			*out << "THROWSTD " << oneline(e.what()) << "\n";
		} catch (...) {
			*out << "THROWX\n";
		}
		pfx = "";
		*out << "DONE " << j.id << "\n";
		out->flush();
	}
	return 0;
}
