/* Scaffold for machines emitted by ChartToC (C04, C02, C12). Compiled together with the emitted file:
 *    gcc -std=gnu99 -DCHART_FILE='"chart.c"' genc_main.c -o chart.bin     (with and without sanitizers)
 * so that the sizing macros (USCXML_MAX_NR_*_BYTES, USCXML_NR_*_TYPE) in force are the emitted ones.
 * usage: chart.bin [-p pend] event...      prints one record per line:
 *    E <name>          an event was dequeued (internal or external)
 *    L <label>: <val>  <log> executed
 *    C <state ids>     configuration after a call of uscxml_step() that took a micro step
 *    H <state ids>     ctx->history after that step
 *    R <code>          return code of uscxml_step()
 * The datamodel is the integer fragment of the generators (x + 1, x - 1, x == 2, x < 2, a or b, In('s')/config[s], not(..)/!(..)),
 * integer arrays ({1,2,3}) for <foreach>, <script>v = expr</script> and _event.name.
 */
#include <stdio.h>
#include <stdlib.h>
#include <string.h>
#include <ctype.h>
#include <stdint.h>

#include CHART_FILE

#define MAXQ 256
typedef struct { char name[80]; int np; char pname[4][16]; long pval[4]; } ev_t;
static ev_t* iq[MAXQ]; static int iqh = 0, iqt = 0;
static ev_t* eq[MAXQ]; static int eqh = 0, eqt = 0;
static struct { char name[16]; long val; int set; } vars[16];
static int nvars = 0;
static struct { char name[16]; long v[16]; int n; } arrs[4];
static int narrs = 0;
static struct { const void* f; int arr; int cur; } fes[64];
static int nfes = 0;
static const char* cur_event = NULL;
static ev_t* cur_ev = NULL;
static uscxml_ctx ctx;
static uscxml_ctx* CUR = &ctx;   /* the machine whose callbacks are running (a nested machine while do_invoke drives it) */
static int depth = 0;
static int failed_eval = 0;

static ev_t* mkev(const char* n) { ev_t* e = (ev_t*)calloc(1, sizeof(ev_t)); strncpy(e->name, n, 79); return e; }
static void push(ev_t** q, int* t, const char* n) { if (*t < MAXQ) q[(*t)++] = mkev(n); }

static long* var(const char* n, int create) {
	int i;
	for (i = 0; i < nvars; i++) if (strcmp(vars[i].name, n) == 0) return &vars[i].val;
	if (!create || nvars >= 16) return NULL;
	strncpy(vars[nvars].name, n, 15); vars[nvars].val = 0;
	return &vars[nvars++].val;
}

static int in_state(const char* id) {
	size_t i;
	for (i = 0; i < CUR->machine->nr_states; i++)
		if (CUR->machine->states[i].name && strcmp(CUR->machine->states[i].name, id) == 0)
			return BIT_HAS(i, CUR->config) ? 1 : 0;
	return 0;
}

/* ---- tiny expression evaluator ---- */
static const char* P;
static void ws(void) { while (*P && isspace((unsigned char)*P)) P++; }
static long expr(void);
static long atom(void) {
	ws();
	if (isdigit((unsigned char)*P)) { long v = strtol(P, (char**)&P, 10); return v; }
	if (*P == '(') { P++; long v = expr(); ws(); if (*P == ')') P++; return v; }
	if (*P == '!') { P++; ws(); if (*P == '(') { P++; long v = expr(); ws(); if (*P == ')') P++; return !v; } failed_eval = 1; return 0; }
	if (isalpha((unsigned char)*P) || *P == '_') {
		char id[32]; int n = 0;
		while ((isalnum((unsigned char)*P) || *P == '_') && n < 31) id[n++] = *P++;
		id[n] = 0;
		if (strcmp(id, "true") == 0) return 1;
		if (strcmp(id, "false") == 0) return 0;
		if (strcmp(id, "not") == 0) { ws(); if (*P == '(') { P++; long v = expr(); ws(); if (*P == ')') P++; return !v; } failed_eval = 1; return 0; }
		if (strcmp(id, "In") == 0) {
			char sid[32]; n = 0; ws();
			if (*P == '(') P++; ws(); if (*P == '\'') P++;
			while (*P && *P != '\'' && *P != ')' && n < 31) sid[n++] = *P++;
			sid[n] = 0; if (*P == '\'') P++; ws(); if (*P == ')') P++;
			return in_state(sid);
		}
		if (strcmp(id, "config") == 0) {
			char sid[32]; n = 0; ws();
			if (*P == '[') P++;
			while (*P && *P != ']' && n < 31) sid[n++] = *P++;
			sid[n] = 0; if (*P == ']') P++;
			return in_state(sid);
		}
		if (strcmp(id, "_event") == 0 && strncmp(P, ".data.", 6) == 0) {
			/* a value that travelled with the event as <param> */
			char pn[16]; int k; n = 0; P += 6;
			while ((isalnum((unsigned char)*P) || *P == '_') && n < 15) pn[n++] = *P++;
			pn[n] = 0;
			if (cur_ev) for (k = 0; k < cur_ev->np; k++) if (strcmp(cur_ev->pname[k], pn) == 0) return cur_ev->pval[k];
			failed_eval = 1; return 0;
		}
		{ long* v = var(id, 0); if (!v) { failed_eval = 1; return 0; } return *v; }
	}
	failed_eval = 1; return 0;
}
static long sum(void) {
	long v = atom();
	for (;;) { ws(); if (*P == '+') { P++; v += atom(); } else if (*P == '-') { P++; v -= atom(); } else break; }
	return v;
}
static long cmp(void) {
	long v = sum(); ws();
	if (P[0] == '=' && P[1] == '=') { P += 2; return v == sum(); }
	if (P[0] == '<') { P++; return v < sum(); }
	return v;
}
static long expr(void) {
	long v = cmp();
	for (;;) {
		ws();
		if (P[0] == '|' && P[1] == '|') { P += 2; long w = cmp(); v = (v != 0) || (w != 0); }
		else if (P[0] == 'o' && P[1] == 'r' && (P[2] == ' ' || P[2] == '(')) { P += 2; long w = cmp(); v = (v != 0) || (w != 0); }
		else break;
	}
	return v;
}
static long eval(const char* s, int* err) { failed_eval = 0; P = s; long v = expr(); ws(); if (*P) failed_eval = 1; *err = failed_eval; return v; }

static int err_exec(void) { push(iq, &iqt, "error.execution"); return USCXML_ERR_EXEC_CONTENT; }

/* ---- callbacks ---- */
static void* dequeue_internal(const uscxml_ctx* c) { if (iqh < iqt) { ev_t* e = iq[iqh++]; if (!depth) printf("E %s\n", e->name); cur_event = e->name; cur_ev = e; return e; } return NULL; }
static void* dequeue_external(const uscxml_ctx* c) { if (eqh < eqt) { ev_t* e = eq[eqh++]; if (!depth) printf("E %s\n", e->name); cur_event = e->name; cur_ev = e; return e; } return NULL; }

static int tok_match(const char* descs, const char* name) {
	/* Rec. 3.12.1: token-wise prefix, '*' matches all, trailing .* / . ignored */
	char buf[256]; strncpy(buf, descs, 255); buf[255] = 0;
	char* save; char* d;
	for (d = strtok_r(buf, " \t\n", &save); d; d = strtok_r(NULL, " \t\n", &save)) {
		size_t l = strlen(d);
		if (strcmp(d, "*") == 0) return 1;
		if (l >= 2 && d[l - 2] == '.' && d[l - 1] == '*') d[l - 2] = 0; else if (l >= 1 && d[l - 1] == '.') d[l - 1] = 0;
		l = strlen(d);
		if (strncmp(d, name, l) == 0 && (name[l] == 0 || name[l] == '.')) return 1;
	}
	return 0;
}
static int is_matched(const uscxml_ctx* c, const uscxml_transition* t, const void* e) { return tok_match(t->event, ((const ev_t*)e)->name); }
static int is_true(const uscxml_ctx* c, const char* ex) { int err; long v = eval(ex, &err); if (err) { push(iq, &iqt, "error.execution"); return 0; } return v != 0; }
static int raise_done_event(const uscxml_ctx* c, const uscxml_state* s, const uscxml_elem_donedata* dd) {
	char n[80]; snprintf(n, 80, "done.state.%s", s->name ? s->name : "?"); push(iq, &iqt, n); return USCXML_ERR_OK;
}
static int exec_log(const uscxml_ctx* c, const char* label, const char* ex) {
	if (depth) return USCXML_ERR_OK;   /* nested machines run silently */
	if (ex && strcmp(ex, "_event.name") == 0) { if (!cur_event) return err_exec(); printf("L %s: \"%s\"\n", label ? label : "", cur_event); }
	else if (ex) { int err; long v = eval(ex, &err); if (err) return err_exec(); printf("L %s: %ld\n", label ? label : "", v); }
	else printf("L %s\n", label ? label : "");
	return USCXML_ERR_OK;
}
static int exec_raise(const uscxml_ctx* c, const char* event) { push(iq, &iqt, event); return USCXML_ERR_OK; }
static int exec_send(const uscxml_ctx* c, const uscxml_elem_send* s) {
	if (s->type && strcmp(s->type, "http://www.w3.org/TR/scxml/#SCXMLEventProcessor") != 0) return err_exec();
	if (s->delay && !depth) printf("SD %s %lu\n", s->event ? s->event : "", (unsigned long)s->delay);   /* the delay this callback is handed (the scaffold has no timers: delivered at once) */
	{
		ev_t** q = (s->target && strcmp(s->target, "#_internal") == 0) ? iq : eq; int* t = (q == iq) ? &iqt : &eqt; int before = *t;
		push(q, t, s->event ? s->event : "");
		if (*t > before && s->params) {
			/* <param name expr>: evaluated now, carried by this instance of the event */
			const uscxml_elem_param* pr = s->params; ev_t* e = q[*t - 1];
			while (USCXML_ELEM_PARAM_IS_SET(pr) && e->np < 4) {
				int err = 0; long v = pr->expr ? eval(pr->expr, &err) : 0;
				if (err) return err_exec();
				strncpy(e->pname[e->np], pr->name ? pr->name : "", 15); e->pval[e->np++] = v; pr++;
			}
		}
	}
	return USCXML_ERR_OK;
}
static int exec_assign(const uscxml_ctx* c, const uscxml_elem_assign* a) {
	long* v = var(a->location, 0); int err; long x;
	if (!v || !a->expr) return err_exec();
	x = eval(a->expr, &err); if (err) return err_exec();
	*v = x; return USCXML_ERR_OK;
}
static int exec_init(const uscxml_ctx* c, const uscxml_elem_data* d) {
	/* a block of <data> elements, terminated by an unset element */
	while (USCXML_ELEM_DATA_IS_SET(d)) {
		if (d->expr && (d->expr[0] == '{' || d->expr[0] == '[') && narrs < 4) {
			const char* q = d->expr + 1; int n = 0;
			strncpy(arrs[narrs].name, d->id, 15);
			while (*q && *q != '}' && *q != ']' && n < 16) { arrs[narrs].v[n++] = strtol(q, (char**)&q, 10); while (*q == ',' || *q == ' ') q++; }
			arrs[narrs++].n = n;
		} else {
			long* v = var(d->id, 1); int err = 0;
			if (v) *v = d->expr ? eval(d->expr, &err) : 0;
		}
		d++;
	}
	return USCXML_ERR_OK;
}
static int exec_cancel(const uscxml_ctx* c, const char* sendid, const char* sendidexpr) { return USCXML_ERR_OK; }
static int exec_script(const uscxml_ctx* c, const char* src, const char* content) {
	/* <script>name = expr</script> */
	char id[32]; int n = 0, err; long x; long* v; const char* q = content;
	if (!q) return USCXML_ERR_OK;
	while (*q && isspace((unsigned char)*q)) q++;
	while ((isalnum((unsigned char)*q) || *q == '_') && n < 31) id[n++] = *q++;
	id[n] = 0;
	while (*q && isspace((unsigned char)*q)) q++;
	if (*q != '=' || q[1] == '=') return err_exec();
	v = var(id, 0); if (!v) return err_exec();
	x = eval(q + 1, &err); if (err) return err_exec();
	*v = x; return USCXML_ERR_OK;
}
static void setup(uscxml_ctx* x);
/* A nested (invoked) machine is driven right here, in a context of its own, with two synthetic events: its behaviour is not compared with
 * anything, but every array access of the emitted step function runs under the sanitizers with the sizing macros of the whole file. */
static int do_invoke(const uscxml_ctx* c, const uscxml_state* s, const uscxml_elem_invoke* inv, unsigned char uninvoke) {
	if (uninvoke || !inv || !inv->machine || depth >= 3) return USCXML_ERR_OK;
	{
		int s_iqh = iqh, s_iqt = iqt, s_eqh = eqh, s_eqt = eqt, n = 0, err = USCXML_ERR_OK, fed = 0;
		uscxml_ctx* parent = CUR; const char* s_ev = cur_event;
		uscxml_ctx* cc = (uscxml_ctx*)calloc(1, sizeof(uscxml_ctx));
		cc->machine = inv->machine; setup(cc);
		iqh = iqt; eqh = eqt; CUR = cc; depth++;
		while (n++ < 80) {
			err = uscxml_step(cc);
			if (err == USCXML_ERR_DONE) break;
			if (err == USCXML_ERR_IDLE) { if (fed >= 3) break; push(eq, &eqt, fed == 0 ? "e1" : fed == 1 ? "e2" : "e1"); fed++; }
		}
		printf("K %d %u %u %d %d\n", depth, (unsigned)cc->machine->nr_states, (unsigned)cc->machine->nr_transitions, n, err);
		depth--; CUR = parent; cur_event = s_ev;
		iqh = s_iqh; iqt = s_iqt; eqh = s_eqh; eqt = s_eqt;
		free(cc);
	}
	return USCXML_ERR_OK;
}
static int fe_slot(const void* f) { int i; for (i = 0; i < nfes; i++) if (fes[i].f == f) return i; if (nfes < 64) { fes[nfes].f = f; return nfes++; } return -1; }
static int fe_init(const uscxml_ctx* c, const uscxml_elem_foreach* f) {
	int i, k = fe_slot(f);
	if (k < 0 || !f->array || !f->item) return err_exec();
	for (i = 0; i < narrs; i++) if (strcmp(arrs[i].name, f->array) == 0) { fes[k].arr = i; fes[k].cur = 0; return USCXML_ERR_OK; }
	return err_exec();
}
static int fe_next(const uscxml_ctx* c, const uscxml_elem_foreach* f) {
	int k = fe_slot(f); long* v;
	if (k < 0 || fes[k].cur >= arrs[fes[k].arr].n) return USCXML_ERR_FOREACH_DONE;
	v = var(f->item, 1); if (v) *v = arrs[fes[k].arr].v[fes[k].cur];
	if (f->index) { v = var(f->index, 1); if (v) *v = fes[k].cur + 1; }
	fes[k].cur++;
	return USCXML_ERR_OK;
}
static int fe_done(const uscxml_ctx* c, const uscxml_elem_foreach* f) { return USCXML_ERR_OK; }

static void print_set(const char* tag, const unsigned char* set) {
	size_t i; printf("%s", tag);
	for (i = 0; i < ctx.machine->nr_states; i++)
		if (BIT_HAS(i, set)) printf(" %s", ctx.machine->states[i].name ? ctx.machine->states[i].name : (i == 0 ? "root" : "?"));
	printf("\n");
}

static void setup(uscxml_ctx* x) {
	x->dequeue_internal = dequeue_internal; x->dequeue_external = dequeue_external;
	x->is_matched = is_matched; x->is_true = is_true; x->raise_done_event = raise_done_event;
	x->exec_content_log = exec_log; x->exec_content_raise = exec_raise; x->exec_content_send = exec_send;
	x->exec_content_assign = exec_assign; x->exec_content_init = exec_init; x->exec_content_cancel = exec_cancel;
	x->exec_content_script = exec_script; x->invoke = do_invoke;
	x->exec_content_foreach_init = fe_init; x->exec_content_foreach_next = fe_next; x->exec_content_foreach_done = fe_done;
}

int main(int argc, char** argv) {
	int a = 1, pend = 0, guard = 0, err, k;
	unsigned char before[sizeof(ctx.config)];
	if (argc > 2 && strcmp(argv[1], "-p") == 0) { pend = atoi(argv[2]); a = 3; }
	memset(&ctx, 0, sizeof(ctx));
	ctx.machine = &USCXML_MACHINE;
	setup(&ctx);
	printf("N %u %u %u %u\n", (unsigned)ctx.machine->nr_states, (unsigned)ctx.machine->nr_transitions, (unsigned)USCXML_MAX_NR_STATES_BYTES, (unsigned)USCXML_MAX_NR_TRANS_BYTES);
	while (guard++ < 600) {
		unsigned char flags_before = ctx.flags;
		memcpy(before, ctx.config, sizeof(before));
		err = uscxml_step(&ctx);
		printf("R %d\n", err);
		if (err == USCXML_ERR_DONE) break;
		if (err == USCXML_ERR_IDLE) {
			if (a >= argc) break;
			for (k = 0; k < 1 + pend && a < argc; k++) push(eq, &eqt, argv[a++]);
			continue;
		}
		if (err != USCXML_ERR_OK) { printf("ERR %d\n", err); continue; }
		print_set("C", ctx.config);
		print_set("H", ctx.history);
	}
	if (guard >= 600) printf("STEPCAP\n");
	print_set("END", ctx.config);
	for (k = 0; k < nvars; k++) printf("V %s %ld\n", vars[k].name, vars[k].val);
	return 0;
}
