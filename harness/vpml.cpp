// C17 subject driver: a promela-datamodel interpreter created in-process (Interpreter::fromXML), stepped until the
// datamodel exists (the document declares  boot : int = 1  and  bootarr : int[3]  without content); then the whole of stdin is read (one command per line) and one answer line per command is written.
//
//   commands (fields separated by TAB):
//     R                      fresh datamodel instance (Factory::createDataModel("promela", <interpreter impl>)); answer "OK"
//     Z                      self-test: blocks the first process that executes it (the supervisor must notice, kill and retry)
//     T <ms>                 CPU-time watchdog for every following command (ITIMER_PROF in the executing process), 0 = off
//     D <type> <loc> <expr>  DataModel::init(loc, data, {type}); <expr> empty -> empty Data (a <data> element without content),
//                            "[..]"/"{..}" -> Data::fromJSON (element content), otherwise Data(expr, INTERPRETED) (expr="..")
//     A <loc> <expr>         DataModel::assign(loc, Data(expr, INTERPRETED))
//     X <text>               DataModel::eval(text) (what <script> does)
//     S <text>               PromelaDataModel::evaluateStmnt(text)  (protected member; ++/--, statement lists)
//     L <text>               PromelaDataModel::evaluateDecl(text)   (protected member; "int a, b = 3; int arr[4]")
//     E <expr>               DataModel::evalAsData(expr)            -> "@V <i|v> <atom>" | "@J <json>"
//     B <expr>               DataModel::evalAsBool(expr)            -> "@B 0|1"
//     +E / +B                the same, but answered "@SKIP" when the preceding command crashed, hung or was skipped
//   Answers: "@OK", "@V ..", "@J ..", "@B ..", "@ERR <event name> :: <data.cause>" for a thrown uscxml::Event,
//   "@EXC <what>" for any other exception, "@CRASH <exit=n|signal=n>" when the executing process died (its sanitizer report
//   is on stderr, followed by a line "@@CRASH-AT <command index>"), "@HANG cpu_ms=<n> maxrss_kb=<n>" when the CPU watchdog
//   fired (backtrace on stderr, then "@@HANG-AT <command index>").
//   Every answer line starts with '@'; other stdout lines (library diagnostics such as AST dumps) are ignored by the driver.
//
//   Process discipline (ASan/UBSan reports are fatal and ASan cannot count, so every evaluation runs in a process that may be
//   lost): the parent only creates the interpreter and supervises. A forked child executes the commands; a shared counter
//   tells the parent how many it answered. When the child dies at command k the parent answers @CRASH for k (the child itself
//   answers @HANG), marks k as skipped and forks a new child, which silently re-executes the state-changing commands since
//   the last R (minus skipped ones) and continues after k. A command that killed its process is thus never applied.
#define protected public
#include "uscxml/plugins/datamodel/promela/PromelaDataModel.h"
#undef protected
#include "uscxml/config.h"
#include "uscxml/Interpreter.h"
#include "uscxml/interpreter/InterpreterImpl.h"
#include "uscxml/interpreter/LoggingImpl.h"
#include "uscxml/plugins/Factory.h"
#include <iostream>
#include <sstream>
#include <vector>
#include <cstring>
#include <cerrno>
#include <cstdio>
#include <ctime>
#include <unistd.h>
#include <signal.h>
#include <sys/time.h>
#include <sys/resource.h>
#include <sys/mman.h>
#include <sys/wait.h>
#include <execinfo.h>

using namespace uscxml;

struct NullLogger : public LoggerImpl {
	std::shared_ptr<LoggerImpl> create() override { return std::shared_ptr<LoggerImpl>(new NullLogger()); }
	void log(LogSeverity severity, const Event& event) override {}
	void log(LogSeverity severity, const Data& data) override {}
	void log(LogSeverity severity, const std::string& message) override {}
};

struct DMPeek : public DataModel {
	DMPeek(const DataModel& d) : DataModel(d) {}
	std::shared_ptr<DataModelImpl> impl() { return _impl; }
};

static std::string oneline(std::string s) {
	for (auto& c : s) if (c == '\n' || c == '\r' || c == '\t') c = ' ';
	return s;
}

static long watchdog_ms = 0;
static volatile long* done_counter = NULL;   // shared with forked children

static void onProf(int) {
	struct rusage ru;
	getrusage(RUSAGE_SELF, &ru);
	char buf[128];
	int n = snprintf(buf, sizeof(buf), "@HANG cpu_ms=%ld maxrss_kb=%ld\n", watchdog_ms, (long)ru.ru_maxrss);
	(void)!write(1, buf, n);
	void* frames[48];
	int k = backtrace(frames, 48);
	backtrace_symbols_fd(frames, k, 2);
	_exit(97);
}

static void arm(long ms) {
	struct itimerval it;
	memset(&it, 0, sizeof(it));
	it.it_value.tv_sec = ms / 1000;
	it.it_value.tv_usec = (ms % 1000) * 1000;
	setitimer(ITIMER_PROF, &it, NULL);
}

// A sanitizer report (symbolising a stack trace) can itself take more CPU time than the watchdog allows: once a report has
// begun the process is dying anyway, so the watchdog is switched off (hooks provided by libasan / libubsan).
extern "C" void __asan_on_error() { arm(0); }
extern "C" void __ubsan_on_report() { arm(0); }

static std::vector<std::string> split(const std::string& line) {
	std::vector<std::string> f;
	size_t p = 0;
	while (true) {
		size_t t = line.find('\t', p);
		if (t == std::string::npos) { f.push_back(line.substr(p)); break; }
		f.push_back(line.substr(p, t - p));
		p = t + 1;
	}
	return f;
}

static std::string fmtData(const Data& d) {
	if (d.array.empty() && d.compound.empty() && !d.node && !d.binary)
		return std::string("@V ") + (d.type == Data::INTERPRETED ? "i" : "v") + " " + oneline(d.atom);
	return "@J " + oneline(Data::toJSON(d));
}

static DataModel dm;
static PromelaDataModel* pdm = NULL;

static long cpuTicks(pid_t pid) {
	char path[64], buf[1024];
	snprintf(path, sizeof(path), "/proc/%d/stat", (int)pid);
	FILE* f = fopen(path, "r");
	if (!f) return -1;
	size_t n = fread(buf, 1, sizeof(buf) - 1, f);
	fclose(f);
	buf[n] = 0;
	char* p = strrchr(buf, ')');
	if (!p) return -1;
	long ut = 0, st = 0;
	// fields after ")": state ppid pgrp session tty tpgid flags minflt cminflt majflt cmajflt utime stime
	if (sscanf(p + 1, " %*c %*d %*d %*d %*d %*d %*u %*u %*u %*u %*u %ld %ld", &ut, &st) != 2) return -1;
	return ut + st;
}

// waits for the child; false when it made no progress (no answer, no CPU tick) for about 3 seconds
static bool waitChild(pid_t pid, int* status) {
	long lastDone = -1, lastCpu = -1;
	int idle = 0;
	struct timespec ts = {0, 300000};   // 0.3 ms for the first 200 polls, then 50 ms
	int polls = 0;
	while (true) {
		pid_t r = waitpid(pid, status, WNOHANG);
		if (r == pid) return true;
		if (r < 0 && errno != EINTR) return true;
		nanosleep(&ts, NULL);
		if (++polls < 200) continue;
		ts.tv_nsec = 50000000;
		long d = *done_counter, c = cpuTicks(pid);
		if (d == lastDone && c == lastCpu) idle++; else idle = 0;
		lastDone = d; lastCpu = c;
		if (idle >= 60) return false;
	}
}

static bool fresh(std::shared_ptr<InterpreterImpl> impl) {
	dm = Factory::getInstance()->createDataModel("promela", impl.get());
	pdm = dynamic_cast<PromelaDataModel*>(DMPeek(dm).impl().get());
	return pdm != NULL;
}

// executes one command against the datamodel; returns the answer line (without newline)
static std::string execute(const std::vector<std::string>& f) {
	const std::string& c = f[0];
	try {
		if (c == "D" && f.size() >= 3) {
			std::map<std::string, std::string> attr;
			if (f[1].size()) attr["type"] = f[1];
			Data d;
			if (f.size() >= 4 && f[3].size()) {
				if (f[3][0] == '[' || f[3][0] == '{') d = Data::fromJSON(f[3]);
				else d = Data(f[3], Data::INTERPRETED);
			}
			dm.init(f[2], d, attr);
			return "@OK";
		} else if (c == "E" && f.size() >= 2) {
			return fmtData(dm.evalAsData(f[1]));
		} else if (c == "B" && f.size() >= 2) {
			return dm.evalAsBool(f[1]) ? "@B 1" : "@B 0";
		} else if (c == "A" && f.size() >= 3) {
			dm.assign(f[1], Data(f[2], Data::INTERPRETED));
			return "@OK";
		} else if (c == "X" && f.size() >= 2) {
			dm.eval(f[1]);
			return "@OK";
		} else if (c == "S" && f.size() >= 2) {
			pdm->evaluateStmnt(f[1]);
			return "@OK";
		} else if (c == "L" && f.size() >= 2) {
			pdm->evaluateDecl(f[1]);
			return "@OK";
		}
		if (c == "Z") {
			// self-test of the supervisor's stuck-child guard: the first process to get here blocks for good
			if (done_counter && done_counter[1] == 0) { done_counter[1] = 1; while (true) pause(); }
			return "@OK";
		}
		return "@BADCMD";
	} catch (Event e) {
		std::string cause;
		if (e.data.compound.find("cause") != e.data.compound.end()) cause = e.data.compound["cause"].atom;
		return "@ERR " + oneline(e.name) + " :: " + oneline(cause);
	} catch (std::exception& e) {
		return std::string("@EXC ") + oneline(e.what());
	} catch (...) {
		return "@EXC unknown";
	}
}

static void say(const std::string& s) {
	std::string t = s + "\n";
	size_t off = 0;
	while (off < t.size()) {
		ssize_t n = write(1, t.data() + off, t.size() - off);
		if (n <= 0) _exit(98);
		off += n;
	}
}

static void mark(const char* what, size_t idx) {
	char buf[64];
	int n = snprintf(buf, sizeof(buf), "\n@@%s-AT %zu\n", what, idx);
	(void)!write(2, buf, n);
}

// "+E .." / "+B ..": skipped (answer "@SKIP") when the previous command crashed, hung or was skipped itself
static bool isChained(const std::string& l) { return l.size() >= 1 && l[0] == '+'; }
static std::string unchain(const std::string& l) { return isChained(l) ? l.substr(1) : l; }
static bool isPure(const std::string& l0) { std::string l = unchain(l0); return l.size() >= 2 && (l[0] == 'E' || l[0] == 'B') && l[1] == '\t'; }

int main(int argc, char** argv) {
	signal(SIGPROF, onProf);
	const char* xml =
	    "<scxml xmlns=\"http://www.w3.org/2005/07/scxml\" version=\"1.0\" datamodel=\"promela\" name=\"pml\">"
	    "<datamodel><data id=\"boot\" type=\"int\" expr=\"1\"/><data id=\"bootarr\" type=\"int[3]\"/></datamodel>"
	    "<state id=\"s0\"/></scxml>";
	Interpreter ip;
	std::shared_ptr<InterpreterImpl> impl;
	try {
		ip = Interpreter::fromXML(xml, "file:///verif/charts/x.scxml");
		ActionLanguage al;
		al.logger = Logger(std::shared_ptr<LoggerImpl>(new NullLogger()));
		ip.setActionLanguage(al);
		for (int i = 0; i < 20; i++) {
			InterpreterState st = ip.step(0);
			impl = ip.getImpl();
			if (impl->getActionLanguage()->dataModel && (st == USCXML_IDLE || st == USCXML_MACROSTEPPED))
				break;
		}
		impl = ip.getImpl();
		dm = impl->getActionLanguage()->dataModel;
		if (!dm) { say("@FATAL no datamodel"); return 3; }
		pdm = dynamic_cast<PromelaDataModel*>(DMPeek(dm).impl().get());
		if (!pdm) { say("@FATAL datamodel is not promela"); return 3; }
		// the document's own <data> went through the interpreter
		if (dm.evalAsData("boot").atom != "1") { say("@FATAL boot variable not initialised"); return 3; }
	} catch (Event e) {
		say("@FATAL " + oneline(e.name) + " " + oneline(Data::toJSON(e.data)));
		return 3;
	}
	std::cout.flush();
	say("@READY");

	done_counter = (volatile long*)mmap(NULL, 2 * sizeof(long), PROT_READ | PROT_WRITE, MAP_SHARED | MAP_ANONYMOUS, -1, 0);
	if (done_counter == MAP_FAILED) { say("@FATAL mmap"); return 3; }

	std::vector<std::string> lines;
	{
		std::string line;
		while (std::getline(std::cin, line)) lines.push_back(line);
	}
	bool nofork = getenv("VPML_NOFORK") != NULL;   // debugging aid: everything in one process

	if (nofork) {
		for (size_t i = 0; i < lines.size(); i++) {
			std::vector<std::string> f = split(unchain(lines[i]));
			if (f[0] == "T" && f.size() >= 2) { watchdog_ms = atol(f[1].c_str()); say("@OK"); continue; }
			if (f[0] == "R") { say(fresh(impl) ? "@OK" : "@FATAL"); continue; }
			if (watchdog_ms > 0) arm(watchdog_ms);
			std::string a = execute(f);
			arm(0);
			say(a);
		}
		return 0;
	}

	// The parent executes nothing. A child runs the commands from `i` to the end of the input; when it dies at command k
	// the parent answers for k, remembers k as skipped and starts a new child, which first silently re-executes the
	// state-changing commands since the last R (except skipped ones) to get the datamodel into the same state.
	std::vector<bool> skipped(lines.size(), false);
	int stuckRetries = 0;
	size_t i = 0;
	while (i < lines.size()) {
		*done_counter = 0;
		pid_t pid = fork();
		if (pid < 0) { say("@FATAL fork"); return 3; }
		if (pid == 0) {
			// re-establish: last T and last R before i
			size_t lastR = std::string::npos;
			for (size_t k = 0; k < i; k++) {
				if (lines[k] == "R") lastR = k;
				else if (lines[k].compare(0, 2, "T\t") == 0) watchdog_ms = atol(lines[k].c_str() + 2);
			}
			for (size_t k = (lastR == std::string::npos ? 0 : lastR); k < i; k++) {
				if (skipped[k] || isPure(lines[k]) || lines[k].compare(0, 2, "T\t") == 0) continue;
				if (lines[k] == "R") { fresh(impl); continue; }
				if (watchdog_ms > 0) arm(watchdog_ms);
				execute(split(lines[k]));
				arm(0);
			}
			bool prevDied = (i > 0 && skipped[i - 1]);
			for (size_t k = i; k < lines.size(); k++) {
				std::string a;
				if (isChained(lines[k]) && prevDied) {
					a = "@SKIP";
				} else {
					prevDied = false;
					std::vector<std::string> f = split(unchain(lines[k]));
					if (f[0] == "T" && f.size() >= 2) { watchdog_ms = atol(f[1].c_str()); a = "@OK"; }
					else if (f[0] == "R") { a = fresh(impl) ? "@OK" : "@FATAL"; }
					else {
						if (watchdog_ms > 0) arm(watchdog_ms);
						a = execute(f);
						arm(0);
					}
				}
				say(a);
				(*done_counter)++;
			}
			_exit(0);
		}
		int status = 0;
		if (!waitChild(pid, &status)) {
			// The child is blocked without using CPU and without answering. It has a single thread, so it cannot wait for
			// anything but a lock inherited from the (multi-threaded: HTTP server, delay queue) parent at fork time - an
			// artefact of fork under ASan, not an observation. Start over at the command it was about to answer.
			kill(pid, SIGKILL);
			while (waitpid(pid, &status, 0) < 0 && errno == EINTR) {}
			i += (size_t)*done_counter;
			mark("STUCK-RETRY", i);
			if (++stuckRetries > 20) { say("@FATAL stuck children"); return 3; }
			continue;
		}
		i += (size_t)*done_counter;
		if (i >= lines.size())
			break;
		if (WIFEXITED(status) && WEXITSTATUS(status) == 97) {
			mark("HANG", i);          // the child already answered @HANG
		} else {
			char buf[64];
			if (WIFSIGNALED(status)) snprintf(buf, sizeof(buf), "@CRASH signal=%d", WTERMSIG(status));
			else snprintf(buf, sizeof(buf), "@CRASH exit=%d", WEXITSTATUS(status));
			mark("CRASH", i);
			say(buf);
		}
		skipped[i] = true;
		i++;
	}
	return 0;
}
